#!/bin/bash
# Idempotent, offline: overlay venv over /venv with crosshair-tool + z3-solver from the local wheelhouse.
set -e
cd "$(dirname "$0")"
V=/verif/.venv
if [ ! -x "$V/bin/python" ] || ! "$V/bin/python" -c "import crosshair, z3, tpmstream" 2>/dev/null; then
  rm -rf "$V"
  /venv/bin/python -m venv "$V"
  SP=$("$V/bin/python" -c "import sysconfig;print(sysconfig.get_paths()['purelib'])")
  echo "import site; site.addsitedir('/venv/lib/python3.12/site-packages')" > "$SP/_verif_overlay.pth"
  PIP_NO_INDEX=1 "$V/bin/pip" install -q --no-index --find-links /opt/veriftools/wheels crosshair-tool z3-solver jsonschema >/dev/null
  "$V/bin/python" -c "import crosshair, z3, tpmstream; print('venv ok', z3.get_version_string())"
fi
# validate the engine's models of C-level builtins against the builtins themselves (once per venv)
if [ ! -f "$V/.models_validated" ] || [ engine/chsetup.py -nt "$V/.models_validated" ]; then
  PYTHONHASHSEED=0 "$V/bin/python" -m engine.validate_models && touch "$V/.models_validated"
fi
