"""Property functions over the real decoder (run natively and under CrossHair).

cfg = {"type": layout key, "cc": int | None, "enc": bool | None}
Every function returns [(tag, condition), ...]; conditions are branch-free over symbolic values
(conjunctions are built with all([...])).
"""
from engine.native import assume, note
from oracle.refdec import ELL, RefDec, pinned_layout
from tpmstream.common.error import (
    AnticipatedSizeConstraintExceededError,
    ConstraintViolatedError,
    InputStreamBytesDepletedError,
    InputStreamSuperfluousBytesError,
    SizeConstraintExceededError,
    SizeConstraintSubceededError,
    ValueConstraintViolatedError,
)
from tpmstream.common.event import MarshalEvent, WarningEvent
from tpmstream.io.binary import Binary

from .common import DOCUMENTED, decode, get_type

KIND = {
    InputStreamBytesDepletedError: "Depleted",
    InputStreamSuperfluousBytesError: "Superfluous",
    ValueConstraintViolatedError: "Value",
    SizeConstraintExceededError: "Exceeded",
    SizeConstraintSubceededError: "Subceeded",
    AnticipatedSizeConstraintExceededError: "Anticipated",
}


def kind_of(err):
    return "OK" if err is None else KIND.get(type(err), type(err).__name__)


def type_name(t):
    if hasattr(t, "__args__"):
        return "list[%s]" % t.__args__[0].__name__
    return t.__name__


def as_list(x):
    """remaining bytes as a list of ints (the attribute may be bytes or an iterator)"""
    return [c for c in x]


def bytes_eq(a, b):
    """element-wise equality of two int sequences of concrete length"""
    if len(a) != len(b):
        return False
    return all([x == y for x, y in zip(a, b)])


def event_conds(events, ref_events):
    """conditions for element-wise equality of real events with RefDec events (same length assumed)"""
    structural = []
    values = []
    for e, (rp, rt, rv) in zip(events, ref_events):
        structural.append(isinstance(e, MarshalEvent) and str(e.path) == rp and type_name(e.type) == rt)
        if rv is ELL:
            structural.append(e.value is ...)
        else:
            structural.append(e.value is not ... and type(e.value) is e.type)
            if e.value is not ...:
                values.append(int(e.value) == rv)
    return all(structural), all(values)


def _cfg(cfg):
    return get_type(cfg["type"]), cfg.get("cc"), cfg.get("enc")


# ------------------------------------------------------------------ C01/C03/C04/C05: strict vs RefDec
def strict_ref(cfg, b):
    T, cc, enc = _cfg(cfg)
    events, err, obj = decode(T, b, strict=True, command_code=cc, parameter_encryption=enc)
    ref = RefDec(pinned_layout(), b)
    rev, out = ref.run(cfg["type"], cc=cc, enc=enc)
    kind = out[0]
    if kind == "Undefined":
        assume(False)
    note("outcome:" + kind)
    want = cfg.get("only")
    if want is not None:
        assume(kind in want)
    kw = out[1] if len(out) > 1 else {}
    checks = [("outcome-class[ref=%s]" % kind, kind_of(err) == kind)]
    if kind_of(err) != kind:
        return checks
    checks.append(("event-count[%s]" % kind, len(events) == len(rev)))
    if len(events) != len(rev):
        return checks
    st, va = event_conds(events, rev)
    checks.append(("event-structure[%s]" % kind, st))
    checks.append(("event-values[%s]" % kind, va))
    if kind == "OK":
        return checks
    if kind in ("Depleted", "Superfluous"):
        rcc = ref.command_code
        if rcc is None:
            checks.append(("error-command-code", err.command_code is None))
        else:
            checks.append(("error-command-code", err.command_code is not None and int(err.command_code) == rcc))
        if kind == "Superfluous":
            checks.append(("superfluous-bytes", bytes_eq(as_list(err.bytes_remaining), as_list(kw["surplus"]))))
        return checks
    if kind == "Value":
        c = err.constraint
        checks.append(("value-error-attrs", all([
            str(c.constraint_path) == kw["path"],
            c.tpm_type.__name__ == kw["type"],
            int(err.value) == kw["value"],
        ])))
        return checks
    c = err.constraint
    if kind == "Exceeded":
        cand = [k for k in kw["candidates"] if k["cpath"] == str(c.constraint_path)]
        checks.append(("exceeded-names-crossed-region", len(cand) == 1))
        if len(cand) == 1:
            k = cand[0]
            checks.append(("exceeded-attrs", all([
                c.size_max == k["limit"], c.size_already == k["counted"],
                str(err.violator_path) == kw["violator"], err.exceeded_by == k["exceeded_by"],
            ])))
        return checks
    if kind == "Subceeded":
        checks.append(("subceeded-attrs", all([
            str(c.constraint_path) == kw["cpath"], c.size_max == kw["limit"], c.size_already == kw["counted"],
        ])))
        return checks
    if kind == "Anticipated":
        checks.append(("anticipated-attrs", all([
            str(c.constraint_path) == kw["cpath"], c.size_max == kw["limit"], c.size_already == kw["counted"],
            str(err.violator_path) == kw["violator"], err.violator_value == kw["violator_value"],
            err.exceeded_by == kw["exceeded_by"],
        ])))
        return checks
    checks.append(("unexpected-reference-outcome:" + kind, False))
    return checks


# ------------------------------------------------------------------ C02: re-encoding
def roundtrip(cfg, b):
    T, cc, enc = _cfg(cfg)
    strict = not cfg.get("warn")
    events, err, obj = decode(T, b, strict=strict, command_code=cc, parameter_encryption=enc)
    if err is not None:
        note("rejected:" + kind_of(err))
        return []
    if not strict:
        warns = [e for e in events if isinstance(e, WarningEvent)]
        if any(not isinstance(w.error, ValueConstraintViolatedError) for w in warns):
            note("warn-other")
            return []
        note("warn-values:%d" % len(warns))
    else:
        note("accepted")
    chunks = list(Binary.unmarshal(events))
    total = sum(len(c) for c in chunks)
    checks = [("reencode-length", total == len(b))]
    if total != len(b):
        return checks
    off = 0
    conds = []
    for e, c in zip(events, chunks):
        if not isinstance(e, MarshalEvent) or e.value is ...:
            conds.append(len(c) == 0)
        else:
            w = e.type._int_size
            conds.append(len(c) == w)
            if len(c) == w:
                for i in range(w):
                    conds.append(c[i] == b[off + i])
            off += len(c)
    checks.append(("chunk-is-input-slice", all(conds)))
    return checks


# ------------------------------------------------------------------ C06: documented outcome, bounded pulls
class CountingIter:
    def __init__(self, data):
        self.data = data
        self.n = 0
        self.stopped = 0

    def __iter__(self):
        return self

    def __next__(self):
        if self.n >= len(self.data):
            self.stopped += 1
            raise StopIteration
        v = self.data[self.n]
        self.n += 1
        return v


def documented(cfg, b):
    T, cc, enc = _cfg(cfg)
    src = CountingIter(b)
    # decode() lets anything but the documented errors escape -> failure tag exc:<class>@<frame>
    events, err, obj = decode(T, src, strict=not cfg.get("warn"), command_code=cc, parameter_encryption=enc)
    note("outcome:" + kind_of(err))
    return [("pulled-at-most-input", src.n <= len(b)), ("terminated", True)]


# ------------------------------------------------------------------ C13: byte accounting of constraint errors
def accounting(cfg, b):
    T, cc, enc = _cfg(cfg)
    events, err, obj = decode(T, b, strict=True, command_code=cc, parameter_encryption=enc)
    if not isinstance(err, ConstraintViolatedError):
        note("no-constraint-error:" + kind_of(err))
        return []
    kind = kind_of(err)
    note("error:" + kind)
    rem = as_list(err.bytes_remaining) if err.bytes_remaining is not None else None
    checks = [("remaining-set", rem is not None)]
    if rem is None:
        return checks
    emitted = []
    for ch in Binary.unmarshal(events):
        emitted.extend(as_list(ch))
    if kind == "Value":
        consumed = err.constraint.tpm_type._int_size
    elif kind == "Exceeded":
        consumed = err.constraint.size_max - err.constraint.size_already
    else:
        consumed = 0
    n = len(b)
    checks.append(("accounting-sum[%s]" % kind, len(emitted) + consumed + len(rem) == n))
    checks.append(("emitted-is-prefix[%s]" % kind, len(emitted) <= n and all([emitted[i] == b[i] for i in range(min(len(emitted), n))])))
    checks.append(("remaining-is-suffix[%s]" % kind, len(rem) <= n and all([rem[i] == b[n - len(rem) + i] for i in range(min(len(rem), n))])))
    return checks
