"""Property functions over the real decoder (run natively and under CrossHair).

cfg = {"type": layout key, "cc": int | None, "enc": bool | None}
Every function returns [(tag, condition), ...]; conditions are branch-free over symbolic values
(conjunctions are built with all([...])).
"""
from engine.native import assume, note
from oracle.refdec import ELL, RefDec, pinned_layout
from tpmstream.common.error import (
    AnticipatedSizeConstraintExceededError,
    ConstraintViolatedError,
    InputStreamBytesDepletedError,
    InputStreamSuperfluousBytesError,
    SizeConstraintExceededError,
    SizeConstraintSubceededError,
    ValueConstraintViolatedError,
)
from tpmstream.common.event import MarshalEvent, WarningEvent
from tpmstream.io.binary import Binary

from engine.native import exc_tag

from .common import DOCUMENTED, decode, decode_full, get_type

KIND = {
    InputStreamBytesDepletedError: "Depleted",
    InputStreamSuperfluousBytesError: "Superfluous",
    ValueConstraintViolatedError: "Value",
    SizeConstraintExceededError: "Exceeded",
    SizeConstraintSubceededError: "Subceeded",
    AnticipatedSizeConstraintExceededError: "Anticipated",
}


def kind_of(err):
    return "OK" if err is None else KIND.get(type(err), type(err).__name__)


def type_name(t):
    if hasattr(t, "__args__"):
        return "list[%s]" % t.__args__[0].__name__
    return t.__name__


def as_list(x):
    """remaining bytes as a list of ints (the attribute may be bytes or an iterator)"""
    return [c for c in x]


def bytes_eq(a, b):
    """element-wise equality of two int sequences of concrete length"""
    if len(a) != len(b):
        return False
    return all([x == y for x, y in zip(a, b)])


def event_conds(events, ref_events):
    """conditions for element-wise equality of real events with RefDec events (same length assumed)"""
    structural = []
    values = []
    for e, (rp, rt, rv) in zip(events, ref_events):
        structural.append(isinstance(e, MarshalEvent) and str(e.path) == rp and type_name(e.type) == rt)
        if rv is ELL:
            structural.append(e.value is ...)
        else:
            structural.append(e.value is not ... and type(e.value) is e.type)
            if e.value is not ...:
                values.append(int(e.value) == rv)
    return all(structural), all(values)


def _cfg(cfg):
    return get_type(cfg["type"]), cfg.get("cc"), cfg.get("enc")


# ------------------------------------------------------------------ C01/C03/C04/C05: strict vs RefDec
def strict_ref(cfg, b):
    T, cc, enc = _cfg(cfg)
    r = decode_full(T, b, True, cc, enc)
    events, err = r.events, r.err
    if cfg["type"].startswith("harness.synth:"):
        from .synth import layout as _syn_layout

        ref = RefDec(_syn_layout(), b)
    else:
        ref = RefDec(pinned_layout(), b)
    rev, out = ref.run(cfg["type"], cc=cc, enc=enc)
    kind = out[0]
    if kind == "Undefined":
        assume(False)
    if r.crash is not None:
        return [("crash:%s[ref=%s]" % (exc_tag(r.crash), kind), False)]
    note("outcome:" + kind)
    want = cfg.get("only")
    if want is not None:
        assume(kind in want)
    kw = out[1] if len(out) > 1 else {}
    checks = [("outcome-class[ref=%s]" % kind, kind_of(err) == kind)]
    if kind_of(err) != kind:
        return checks
    checks.append(("event-count[%s]" % kind, len(events) == len(rev)))
    if len(events) != len(rev):
        return checks
    st, va = event_conds(events, rev)
    checks.append(("event-structure[%s]" % kind, st))
    checks.append(("event-values[%s]" % kind, va))
    if kind == "OK":
        return checks
    if kind in ("Depleted", "Superfluous"):
        rcc = ref.command_code
        if rcc is None:
            checks.append(("error-command-code", err.command_code is None))
        else:
            checks.append(("error-command-code", err.command_code is not None and int(err.command_code) == rcc))
        if kind == "Superfluous":
            checks.append(("superfluous-bytes", bytes_eq(as_list(err.bytes_remaining), as_list(kw["surplus"]))))
        return checks
    if kind == "Value":
        c = err.constraint
        checks.append(("value-error-attrs", all([
            str(c.constraint_path) == kw["path"],
            c.tpm_type.__name__ == kw["type"],
            int(err.value) == kw["value"],
        ])))
        return checks
    c = err.constraint
    if kind == "Exceeded":
        cand = [k for k in kw["candidates"] if k["cpath"] == str(c.constraint_path)]
        checks.append(("exceeded-names-crossed-region", len(cand) == 1))
        if len(cand) == 1:
            k = cand[0]
            checks.append(("exceeded-attrs", all([
                c.size_max == k["limit"], c.size_already == k["counted"],
                str(err.violator_path) == kw["violator"], err.exceeded_by == k["exceeded_by"],
            ])))
        return checks
    if kind == "Subceeded":
        checks.append(("subceeded-attrs", all([
            str(c.constraint_path) == kw["cpath"], c.size_max == kw["limit"], c.size_already == kw["counted"],
        ])))
        return checks
    if kind == "Anticipated":
        checks.append(("anticipated-attrs", all([
            str(c.constraint_path) == kw["cpath"], c.size_max == kw["limit"], c.size_already == kw["counted"],
            str(err.violator_path) == kw["violator"], err.violator_value == kw["violator_value"],
            err.exceeded_by == kw["exceeded_by"],
        ])))
        return checks
    checks.append(("unexpected-reference-outcome:" + kind, False))
    return checks


# ------------------------------------------------------------------ C02: re-encoding
def roundtrip(cfg, b):
    T, cc, enc = _cfg(cfg)
    strict = not cfg.get("warn")
    r = decode_full(T, b, strict, cc, enc)
    events, err = r.events, r.err
    if r.crash is not None:
        note("crash")  # C06 / C08's business
        return []
    if err is not None:
        note("rejected:" + kind_of(err))
        return []
    if not strict:
        warns = [e for e in events if isinstance(e, WarningEvent)]
        if any(not isinstance(w.error, ValueConstraintViolatedError) for w in warns):
            note("warn-other")
            return []
        note("warn-values:%d" % len(warns))
    else:
        note("accepted")
    chunks = list(Binary.unmarshal(events))
    total = sum(len(c) for c in chunks)
    checks = [("reencode-length", total == len(b))]
    if total != len(b):
        return checks
    off = 0
    conds = []
    for e, c in zip(events, chunks):
        if not isinstance(e, MarshalEvent) or e.value is ...:
            conds.append(len(c) == 0)
        else:
            w = e.type._int_size
            conds.append(len(c) == w)
            if len(c) == w:
                for i in range(w):
                    conds.append(c[i] == b[off + i])
            off += len(c)
    checks.append(("chunk-is-input-slice", all(conds)))
    return checks


# ------------------------------------------------------------------ C06: documented outcome, bounded pulls
class CountingIter:
    def __init__(self, data):
        self.data = data
        self.n = 0
        self.stopped = 0

    def __iter__(self):
        return self

    def __next__(self):
        if self.n >= len(self.data):
            self.stopped += 1
            raise StopIteration
        v = self.data[self.n]
        self.n += 1
        return v


def documented(cfg, b):
    T, cc, enc = _cfg(cfg)
    src = CountingIter(b)
    # decode() lets anything but the documented errors escape -> failure tag exc:<class>@<frame>
    events, err, obj = decode(T, src, strict=not cfg.get("warn"), command_code=cc, parameter_encryption=enc)
    note("outcome:" + kind_of(err))
    return [("pulled-at-most-input", src.n <= len(b)), ("terminated", True)]


# ------------------------------------------------------------------ C13: byte accounting of constraint errors
def accounting(cfg, b):
    T, cc, enc = _cfg(cfg)
    r = decode_full(T, b, True, cc, enc)
    events, err = r.events, r.err
    if r.crash is not None:
        note("crash")  # C06's business
        return []
    if not isinstance(err, ConstraintViolatedError):
        note("no-constraint-error:" + kind_of(err))
        return []
    kind = kind_of(err)
    note("error:" + kind)
    # what any caller does first with an error is to log it; the attributes must survive that.  Only a
    # renderer defined by the project is called (BaseException's own would concretise the message text)
    import types as _types

    _render = type(err).__str__
    if isinstance(_render, _types.FunctionType):
        _text = _render(err)
    rem = as_list(err.bytes_remaining) if err.bytes_remaining is not None else None
    checks = [("remaining-set", rem is not None)]
    if rem is None:
        return checks
    emitted = []
    for ch in Binary.unmarshal(events):
        emitted.extend(as_list(ch))
    if kind == "Value":
        consumed = err.constraint.tpm_type._int_size
    elif kind == "Exceeded":
        # the rest of the overrun region; nothing if the region was already overrun when it was
        # declared (e.g. commandSize < 6: the header itself lies beyond the declared end)
        consumed = err.constraint.size_max - err.constraint.size_already
        if consumed < 0:
            consumed = 0
    else:
        consumed = 0
    n = len(b)
    checks.append(("accounting-sum[%s]" % kind, len(emitted) + consumed + len(rem) == n))
    checks.append(("emitted-is-prefix[%s]" % kind, len(emitted) <= n and all([emitted[i] == b[i] for i in range(min(len(emitted), n))])))
    checks.append(("remaining-is-suffix[%s]" % kind, len(rem) <= n and all([rem[i] == b[n - len(rem) + i] for i in range(min(len(rem), n))])))
    return checks


# ------------------------------------------------------------------ C07: warn mode vs strict mode
def _same_event(a, b):
    """two real events: same path, declared type, value class; -> (structural bool, value cond)"""
    if not (isinstance(a, MarshalEvent) and isinstance(b, MarshalEvent)):
        return False, True
    st = a.path == b.path and a.type is b.type and (a.value is ...) == (b.value is ...)
    if not st or a.value is ...:
        return st, True
    return type(a.value) is type(b.value), int(a.value) == int(b.value)


def _same_details(d1, d2):
    if set(d1) != set(d2):
        return False
    conds = []
    for k in d1:
        if k in ("class", "constraint_path", "violator_path"):
            if d1[k] != d2[k]:
                return False
        elif k == "tpm_type":
            if d1[k] is not d2[k]:
                return False
        elif k == "command_code":
            if (d1[k] is None) != (d2[k] is None):
                return False
            if d1[k] is not None:
                conds.append(int(d1[k]) == int(d2[k]))
        else:
            conds.append(int(d1[k]) == int(d2[k]))
    return all(conds)


def warn_vs_strict(cfg, b):
    from .common import decode_full

    T, cc, enc = _cfg(cfg)
    s = decode_full(T, b, True, cc, enc)
    if s.crash is not None:
        note("strict-crash")  # C06's business
        assume(False)
    w = decode_full(T, b, False, cc, enc)
    k = next((i for i, e in enumerate(w.events) if isinstance(e, WarningEvent)), None)
    if s.err is None:
        note("strict-accepts")
        checks = [("warn-crash-on-accepted-input", w.crash is None and w.err is None),
                  ("warning-on-accepted-input", k is None),
                  ("accepted-event-count", len(w.events) == len(s.events))]
        if len(w.events) != len(s.events) or k is not None:
            return checks
        st, va = [], []
        for a, e in zip(w.events, s.events):
            x, y = _same_event(a, e)
            st.append(x)
            va.append(y)
        checks.append(("accepted-events-structure", all(st)))
        checks.append(("accepted-events-values", all(va)))
        return checks
    kind = kind_of(s.err)
    note("strict-rejects:" + kind)
    if k is None:
        # strict mode rejects, so warn mode must deliver a warning (even the two documented warn-mode aborts -
        # unknown command code, selector without member - are preceded by the value warning of the bad field)
        return [("warn-mode-no-warning-but-strict-rejects[%s]" % kind, False)]
    head = w.events[:k]
    if kind == "Value":
        checks = [("value-warning-preceded-by-offending-event", k >= 1 and len(head) - 1 == len(s.events))]
        if not (k >= 1 and len(head) - 1 == len(s.events)):
            return checks
        off = head[-1]
        head = head[:-1]
        checks.append(("offending-event-is-the-violator", isinstance(off, MarshalEvent)
                       and str(off.path) == s.snaps["err"]["constraint_path"]
                       and off.type is s.snaps["err"]["tpm_type"]))
        checks.append(("offending-event-value", int(off.value) == int(s.snaps["err"]["value"])))
    else:
        checks = [("events-before-first-warning-count[%s]" % kind, len(head) == len(s.events))]
        if len(head) != len(s.events):
            return checks
    st, va = [], []
    for a, e in zip(head, s.events):
        x, y = _same_event(a, e)
        st.append(x)
        va.append(y)
    checks.append(("events-before-first-warning-structure[%s]" % kind, all(st)))
    checks.append(("events-before-first-warning-values[%s]" % kind, all(va)))
    checks.append(("first-warning-same-error[%s]" % kind, _same_details(s.snaps["err"], w.snaps[k])))
    if kind == "Superfluous":
        checks.append(("first-warning-same-surplus", bytes_eq(as_list(s.err.bytes_remaining), as_list(w.events[k].error.bytes_remaining))))
    return checks


# ------------------------------------------------------------------ C01: well-formed inputs only
def assume_leaves(cfg, b):
    """Restrict the symbolic leaves of a shape to the interval of their type's *live* value set in which the
    shape placed them (cfg['leaves'] = [[offset, width, type key, lo, hi]]; lo None = whole value set)."""
    if not cfg.get("leaves"):
        return
    from oracle.refdec import in_valid
    from oracle.shapes import live_layout

    LT = live_layout()["types"]
    conds = []
    for off, w, tkey, lo, hi in cfg["leaves"]:
        d = LT[tkey]
        v = int.from_bytes(b[off:off + w], "big", signed=d["signed"])
        if lo is None:
            conds.append(in_valid(d["valid"], v))
        else:
            conds.append(lo <= v)
            conds.append(v < hi)
    assume(all(conds))


def strict_ref_wf(cfg, b):
    """strict_ref on a shape whose leaves are assumed valid under the *live* tables (that is what
    'well-formed' means for the generator); RefDec (pinned tables) must then accept."""
    assume_leaves(cfg, b)
    checks = strict_ref(dict(cfg), b)
    return [("wellformed-" + t, x) for t, x in checks]


# ------------------------------------------------------------------ C11: events <-> objects
def _events_equal(evs, ref):
    """two lists of real events: same length, paths, declared types, value classes; values as one condition"""
    if len(evs) != len(ref):
        return False, True
    st, va = [], []
    for a, e in zip(evs, ref):
        x, y = _same_event(a, e)
        st.append(x)
        va.append(y)
    return all(st), all(va)


def obj_events(cfg, b):
    from tpmstream.common.canonical import Canonical
    from tpmstream.common.object import events_to_obj, obj_to_events

    T, cc, enc = _cfg(cfg)
    assume_leaves(cfg, b)
    r = decode_full(T, b, True, cc, enc)
    if r.crash is not None or r.err is not None:
        note("not-decodable")
        return []
    note("decodable")
    events = r.events
    obj = r.obj
    rebuilt = events_to_obj(events, command_code=cc)
    checks = [("decoder-object-equals-object-from-events", obj == rebuilt),
              ("same-class", type(obj) is type(rebuilt))]
    for label, o in (("decoder-object", obj), ("rebuilt-object", rebuilt)):
        evs = list(obj_to_events(o))
        checks.append(("%s-to-events-count" % label, len(evs) == len(events)))
        st, va = _events_equal(evs, events)
        checks.append(("%s-to-events-structure" % label, st))
        checks.append(("%s-to-events-values" % label, va))
        if st:
            out = []
            for ch in Binary.unmarshal(evs):
                out.extend(as_list(ch))
            checks.append(("%s-reencodes-to-input" % label, bytes_eq(out, as_list(b))))
    return checks


def canonical_facade(cfg, b):
    """Canonical(bytes).object / .events agree with the direct decode (concrete bytes: Canonical requires
    a real bytes object, so this runs on the shape itself, without symbolic leaves)"""
    from tpmstream.common.canonical import Canonical

    T, cc, enc = _cfg(cfg)
    if enc:
        return []  # Canonical has no way to say that a response's first parameter is encrypted
    r = decode_full(T, b, True, cc, enc)
    if r.crash is not None or r.err is not None:
        return []
    c = Canonical(bytes(b), format_in=Binary, tpm_type=T, command_code=cc)
    evs = c.events
    st, va = _events_equal(evs, r.events)
    c2 = Canonical(r.obj)
    st2, va2 = _events_equal(list(c2.events), r.events)
    return [("canonical-events", st and va), ("canonical-object", c.object == r.obj),
            ("canonical-from-object-events", st2 and va2)]
