"""C20 - the layout tables are coherent and match the pinned TPM 2.0 layout."""
import json

from engine.native import assume, note
from oracle.refdec import in_valid, pinned_layout

from . import spaces as sp
from .common import get_type

META = {
    "rule": "Solver-decided over full domains: (a) value set and member names of every primitive type equal the "
            "pinned ones for every integer of the width; (b) for every union-typed field, every valid selector "
            "value (symbolic, constrained by the real is_valid) makes the real process_tpmu pick a member, the "
            "pinned one; (c) for every valid command code (symbolic) the four tables have an entry named after it, "
            "handle areas hold <= 3 four-byte handles. Structural facts (d) and the comparison of the regenerated "
            "layout encoding with the pinned snapshot (e) are finite and compared directly (no search).",
    "bounds": {"quick": "all types, all selector values, all command codes", "thorough": "same"},
    "outside": "nothing within the tables; behavioural stability of decoding is C01's claim",
    "wall_budget_s": {"quick": 250, "thorough": 600},
}


def value_set(cfg, v):
    """(a) live validity and name == pinned, for every v of the width"""
    from .c16 import text_form_ok

    T = get_type(cfg["type"])
    d = pinned_layout()["types"].get(cfg["type"])
    if d is None:
        return [("type-missing-in-pinned-layout", False)]
    x = T(v)
    valid = in_valid(d["valid"], v)
    checks = [("validity-equals-pinned", x.is_valid() == valid),
              ("width-signedness-equal-pinned", T._int_size == d["width"] and bool(T._signed) == d["signed"])]
    if not d.get("rc") and not d.get("bits"):
        checks.append(("member-name-equals-pinned", text_form_ok(T, d, x, v, valid)))
    return checks


def selector_total(cfg, v):
    """(b) every valid selector value selects a member: the pinned one"""
    from tpmstream.common.event import MarshalEvent
    from tpmstream.common.path import Path, PathNode
    from tpmstream.io.binary.marshal import process_tpmu

    S = get_type(cfg["selector_type"])
    U = get_type(cfg["union_type"])
    sel = S(v)
    assume(sel.is_valid())
    pinned_members = cfg["pinned_members"]  # [[selector int | None, member name, has payload]]
    want = None
    for s_, name, payload in pinned_members:
        if s_ is not None and v == s_:
            want = (name, payload)
    if want is None:
        for s_, name, payload in pinned_members:
            if s_ is None:
                want = (name, payload)
    note("selector")
    path = Path(PathNode("")) / PathNode("u")
    gen = process_tpmu(U, path, selector=sel, size_constraints=None, abort_on_error=False)
    first = None
    done = False
    try:
        ev = next(gen)  # the union's own event
        x = gen.send(None)
        for _ in range(64):
            if isinstance(x, MarshalEvent):
                first = x
                break
            x = gen.send(0) if x is None else gen.send(None)
    except StopIteration:
        done = True
    picked = first.path[len(path)].name if first is not None else None
    checks = [("pinned-layout-has-a-member-for-every-valid-selector", want is not None)]
    if want is None:
        return checks
    if want[1]:
        checks.append(("member-picked-equals-pinned", picked == want[0]))
    else:
        checks.append(("payload-less-member-yields-nothing", done and first is None))
    return checks


def _norm(s):
    return s.replace("_", "").upper()


def cc_total(cfg, v):
    """(c) every valid command code has exactly one, rightly named, entry in each of the four tables"""
    from dataclasses import fields

    from tpmstream.spec.commands import Command, Response
    from tpmstream.spec.structures.constants import TPM_CC

    cc = TPM_CC(v)
    assume(cc.is_valid())
    note("cc")
    tabs = [("TPMS_COMMAND_HANDLES_", Command._type_maps["handles"]), ("TPMS_COMMAND_PARAMS_", Command._type_maps["parameters"]),
            ("TPMS_RESPONSE_HANDLES_", Response._type_maps["handles"]), ("TPMS_RESPONSE_PARAMS_", Response._type_maps["parameters"])]
    name = format(cc).split(".", 1)[1]
    conds, hconds = [], []
    for prefix, m in tabs:
        present = cc in m
        conds.append(present)
        if not present:
            continue
        t = m[cc]
        conds.append(t.__name__.startswith(prefix) and _norm(t.__name__[len(prefix):]) == _norm(name))
        conds.append(sum(1 for k in m if k == v) == 1)
        if "HANDLES" in prefix:
            fs = fields(t)
            hconds.append(len(fs) <= 3 and all(getattr(f.type, "_int_size", None) == 4 for f in fs))
    pin = pinned_layout()["cc"].get(str(int(v))) if not hasattr(v, "var") else None
    return [("four-tables-have-exactly-one-entry-named-after-the-code", all(conds)),
            ("handle-areas-hold-at-most-three-4-byte-handles", all(hconds))]


def structure_facts(cfg):
    """(d) + (e): finite structural facts over the live tables and the regenerated-encoding comparison"""
    L = sp.L()
    P = pinned_layout()
    T = L["types"]
    bad_count, bad_union, bad_len = [], [], []
    for k, d in T.items():
        if d["kind"] != "struct" or d.get("name") in ("Command", "Response"):
            continue
        flds = d["fields"]
        for i, (fn, ft) in enumerate(flds):
            if isinstance(ft, list):
                ok = i > 0 and isinstance(flds[i - 1][1], str) and T[flds[i - 1][1]]["kind"] == "prim" and not T[flds[i - 1][1]]["signed"]
                if not ok:
                    bad_count.append("%s.%s" % (k, fn))
            elif ft != "ANY" and T[ft]["kind"] == "union":
                seln = d.get("selectors", {}).get(fn)
                names = [f[0] for f in flds[:i]]
                if seln is None or seln not in names:
                    bad_union.append("%s.%s" % (k, fn))
                for m in T[ft]["members"]:
                    if isinstance(m["type"], list) and not isinstance(m["len"], int):
                        bad_len.append("%s.%s" % (ft, m["name"]))
                    if m["sel"] == "MISSING":
                        bad_union.append("%s.%s (member without selector entry)" % (ft, m["name"]))
    note("facts")
    diffs = layout_diff(P, L)
    for x in diffs[:20]:
        note("diff:" + x)
    return [("every-counted-list-directly-follows-an-unsigned-count:" + ",".join(bad_count[:3]), not bad_count),
            ("every-union-field-has-an-earlier-selector:" + ",".join(bad_union[:3]), not bad_union),
            ("every-list-valued-union-member-has-a-fixed-length:" + ",".join(bad_len[:3]), not bad_len),
            ("live-layout-equals-pinned-snapshot:" + ";".join(diffs[:4]), not diffs)]


def layout_diff(P, L):
    out = []
    for sect in ("types", "cc", "wk", "table_keys"):
        a, b = P[sect], L[sect]
        for k in sorted(set(a) | set(b)):
            if k not in b:
                out.append("%s/%s missing in live" % (sect, k))
            elif k not in a:
                out.append("%s/%s not in pinned" % (sect, k))
            elif json.dumps(a[k], sort_keys=True) != json.dumps(b[k], sort_keys=True):
                out.append("%s/%s differs" % (sect, k))
    from oracle.layout_dump import dump_rc

    if json.dumps(P.get("rc_tables"), sort_keys=True) != json.dumps(json.loads(json.dumps(dump_rc())), sort_keys=True):
        out.append("rc_tables differ")
    return out


def partitions(tier, seed):
    parts = []
    LT = sp.L()["types"]
    PT = pinned_layout()["types"]
    for k in sp.prim_keys():
        d = LT[k]
        w = d["width"]
        lo = -(2 ** (8 * w - 1)) if d["signed"] else 0
        hi = 2 ** (8 * w - 1) if d["signed"] else 2 ** (8 * w)
        parts.append({"id": "C20/values/%s" % sp.short(k), "prop": "harness.c20:value_set", "cfg": {"type": k},
                      "sym": [["v", "int", lo, hi]], "budget_s": 60})
    for k, d in sorted(LT.items()):
        if d["kind"] != "struct":
            continue
        for fn, ft in d["fields"]:
            if isinstance(ft, str) and ft != "ANY" and LT[ft]["kind"] == "union":
                seln = d.get("selectors", {}).get(fn)
                st = dict((f[0], f[1]) for f in d["fields"]).get(seln)
                if st is None:
                    continue
                pm = PT.get(ft, {"members": []})["members"]
                members = [[m["sel"] if isinstance(m["sel"], int) or m["sel"] is None else "x", m["name"], m["type"] is not None] for m in pm]
                w = LT[st]["width"]
                parts.append({"id": "C20/selector/%s.%s" % (sp.short(k), fn), "prop": "harness.c20:selector_total",
                              "cfg": {"selector_type": st, "union_type": ft, "pinned_members": members},
                              "sym": [["v", "int", 0, 2 ** (8 * w)]], "budget_s": 90})
    parts.append({"id": "C20/command-codes", "prop": "harness.c20:cc_total", "cfg": {}, "sym": [["v", "int", 0, 2 ** 32]],
                  "budget_s": 200})
    parts.append({"id": "C20/structure-and-snapshot", "prop": "harness.c20:structure_facts", "cfg": {}, "sym": [], "budget_s": 60})
    return parts
