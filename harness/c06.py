"""C06 - decoding arbitrary bytes terminates with a documented outcome (strict mode)."""
from . import spaces as sp

PROP = "harness.props:documented"
META = {
    "rule": "S(T,N): all N bytes symbolic, one partition per type and length; Command split by tag and "
            "command code (bytes 0-1, 6-9 concrete); Response by command code and encryption flag.",
    "bounds": {
        "quick": "structure types: seed-rotated third, every length 0..min(m(T)+2, 9); Command/Response: "
                 "seed-rotated 12 command codes x {no sessions, sessions} at header+8 bytes; for ALL 117 codes the one-session command with its attribute byte symbolic and the minimal responses with both encryption flags; every structure type at m(T), m(T)+1; "
                 "CommandResponseStream <= 12 bytes",
        "thorough": "all structure and area types, lengths 0..min(m(T)+4, 14); all 117 command codes",
    },
    "outside": "inputs longer than the stated N; more than the listed command codes in the quick tier",
    "assumptions": ["termination is observed per path: a path that hits per_path_timeout is reported "
                    "as unknown (partition incomplete), never as success"],
    "wall_budget_s": {"quick": 270, "thorough": 840},
}


def partitions(tier, seed):
    parts = []
    quick = tier == "quick"
    sk = sp.struct_keys()
    if quick:
        sk = sp.rotate(sk, seed, len(sk) // 3)
    for k in sk:
        m = sp.min_size(k)
        top = min(m + 2, 9) if quick else min(m + 4, 14)
        for n in range(0, top + 1):
            parts.append(sp.S(PROP, "C06", k, n, budget=25 if quick else 120))
    if quick:
        have = set(sk)
        for k in sp.struct_keys():
            if k not in have:
                m = sp.min_size(k)
                for n in (m, m + 1):
                    if n <= 12:
                        parts.append(sp.S(PROP, "C06", k, n, budget=20))
    # prim types at their width and +-1
    for k in sp.prim_keys():
        w = sp.L()["types"][k]["width"]
        for n in (w - 1, w, w + 1):
            parts.append(sp.S(PROP, "C06", k, n, budget=20))
    # command / response with concrete tag + command code
    ccs = sp.cc_list()
    if quick:
        ccs = sp.rotate(ccs, seed, 12)
    G = sp.gen()
    for cc in ccs:
        for label, data in G.commands(cc, minimal=True)[:2]:
            hdr = 10
            n = min(len(data), hdr + 8 if quick else hdr + 14)
            base = data[:n]
            free = [i for i in range(n) if i not in (0, 1, 6, 7, 8, 9)]
            parts.append(sp.M(PROP, "C06", sp.cmd_key(), "%s-%s-len%d" % (sp.cc_name(cc), label, n), base, free,
                              budget=30 if quick else 150))
        for label, enc, data in G.responses(cc, minimal=True):
            if label not in ("nosess", "sess1", "encrypt"):
                continue
            n = min(len(data), 10 + 8 if quick else 10 + 14)
            base = data[:n]
            free = [i for i in range(n) if i not in (0, 1)]
            parts.append(sp.M(PROP, "C06", sp.rsp_key(), "%s-%s-len%d" % (sp.cc_name(cc), label, n), base, free,
                              budget=30 if quick else 150, cfg={"cc": cc, "enc": enc}))
    for cc in sp.cc_list():
        c = dict(G.commands(cc, minimal=True)).get("sess1")
        if c is not None:
            tr = sp.trace_of(sp.cmd_key(), c)
            at = [x[2] for x in tr if x[4] == "attr"]
            parts.append(sp.M(PROP, "C06", sp.cmd_key(), "%s-sess1-attrs" % sp.cc_name(cc), c, at, budget=30))
        for label, enc, data in G.responses(cc, minimal=True):
            if label in ("nosess", "sess1"):
                for flag in (None, True):
                    parts.append(sp.M(PROP, "C06", sp.rsp_key(), "%s-%s-flag%s" % (sp.cc_name(cc), label, flag), data, [], budget=20,
                                      cfg={"cc": cc, "enc": flag}))
    for n in (0, 6, 10, 12) if quick else range(0, 23):
        parts.append(sp.S(PROP, "C06", sp.stream_key(), n, budget=30 if quick else 200))
    return parts
