"""Helpers shared by the property functions (plain Python: runs natively and under CrossHair)."""
import importlib

from tpmstream.common.error import (
    ConstraintViolatedError,
    InputStreamBytesDepletedError,
    InputStreamSuperfluousBytesError,
)
from tpmstream.common.event import MarshalEvent, WarningEvent
from tpmstream.io.binary import Binary

DOCUMENTED = (
    ConstraintViolatedError,
    InputStreamBytesDepletedError,
    InputStreamSuperfluousBytesError,
)


def get_type(key):
    """key = 'module:qualname' (types are never looked up by bare name, see DESIGN 2.1)"""
    mod, name = key.split("#")[0].split(":")
    return getattr(importlib.import_module(mod), name)


def type_key(t):
    return "%s:%s" % (t.__module__, t.__qualname__)


def error_details(err):
    """Snapshot of everything an error says (taken when the error is observed: the SizeConstraint
    object an error refers to keeps counting while warn-mode decoding goes on)."""
    d = {"class": type(err).__name__}
    c = getattr(err, "constraint", None)
    if c is not None:
        d["constraint_path"] = str(c.constraint_path)
        if hasattr(c, "size_max"):
            d["size_max"] = c.size_max
            d["size_already"] = c.size_already
        if hasattr(c, "tpm_type"):
            d["tpm_type"] = c.tpm_type
    for a in ("violator_path",):
        if hasattr(err, a):
            d[a] = str(getattr(err, a))
    for a in ("exceeded_by", "violator_value", "value", "command_code"):
        if hasattr(err, a):
            d[a] = getattr(err, a)
    return d


class Decoded:
    __slots__ = ("events", "err", "crash", "obj", "snaps")


def decode_full(tpm_type, buf, strict=True, command_code=None, parameter_encryption=None):
    """Runs the real decoder to its end. Documented errors -> .err, anything else -> .crash."""
    r = Decoded()
    r.events, r.err, r.crash, r.obj, r.snaps = [], None, None, None, {}
    gen = Binary.marshal(
        tpm_type=tpm_type,
        buffer=buf,
        command_code=command_code,
        parameter_encryption=parameter_encryption,
        abort_on_error=strict,
    )
    try:
        while True:
            e = next(gen)
            if isinstance(e, WarningEvent):
                r.snaps[len(r.events)] = error_details(e.error)
            r.events.append(e)
    except StopIteration as s:
        r.obj = s.value
    except DOCUMENTED as e:
        r.err = e
        r.snaps["err"] = error_details(e)
    except Exception as e:  # CrossHair's control flow exceptions are BaseException
        r.crash = e
    return r


def decode(tpm_type, buf, strict=True, command_code=None, parameter_encryption=None):
    """-> (events, documented error or None, returned object). Other exceptions propagate."""
    r = decode_full(tpm_type, buf, strict, command_code, parameter_encryption)
    if r.crash is not None:
        raise r.crash
    return r.events, r.err, r.obj
