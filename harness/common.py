"""Helpers shared by the property functions (plain Python: runs natively and under CrossHair)."""
import importlib

from tpmstream.common.error import (
    ConstraintViolatedError,
    InputStreamBytesDepletedError,
    InputStreamSuperfluousBytesError,
)
from tpmstream.common.event import MarshalEvent, WarningEvent
from tpmstream.io.binary import Binary

DOCUMENTED = (
    ConstraintViolatedError,
    InputStreamBytesDepletedError,
    InputStreamSuperfluousBytesError,
)


def get_type(key):
    """key = 'module:qualname' (types are never looked up by bare name, see DESIGN 2.1)"""
    mod, name = key.split(":")
    return getattr(importlib.import_module(mod), name)


def type_key(t):
    return "%s:%s" % (t.__module__, t.__qualname__)


def decode(tpm_type, buf, strict=True, command_code=None, parameter_encryption=None):
    """-> (events, error or None, returned object or None). Only documented errors are caught."""
    events = []
    gen = Binary.marshal(
        tpm_type=tpm_type,
        buffer=buf,
        command_code=command_code,
        parameter_encryption=parameter_encryption,
        abort_on_error=strict,
    )
    obj = None
    err = None
    try:
        while True:
            events.append(next(gen))
    except StopIteration as s:
        obj = s.value
    except DOCUMENTED as e:
        err = e
    return events, err, obj
