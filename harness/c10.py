"""C10 - decoding is incremental: one byte of look-ahead, prefix-stable, source-agnostic."""
from engine.native import assume, note
from tpmstream.common.event import MarshalEvent
from tpmstream.io.binary import Binary

from . import spaces as sp
from .common import DOCUMENTED, get_type
from .props import CountingIter, _events_equal, assume_leaves, kind_of

META = {
    "rule": "M(shape) and stream shapes through a counting iterator (pure Python, traced): at every yielded event "
            "pulled <= bytes of the primitive events emitted so far + 1; every cut of the shape: events(prefix) is a "
            "prefix of events(whole) with every complete field; six kinds of byte source give identical events; "
            "the two text front-ends pull at most one character beyond the pair that completes a byte.",
    "bounds": {"quick": "minimal shapes of 10 seed-rotated command codes + core and their one-pair streams, full-range leaves symbolic",
               "thorough": "all command codes, two-pair streams"},
    "outside": "byte sources other than the six listed kinds; io.bytes_from_files (reads a whole file object at once; not a per-byte source)",
    "wall_budget_s": {"quick": 250, "thorough": 840},
}
CORE = ("Startup", "GetRandom", "CreatePrimary")


def _decode_counting(T, src, cc, enc):
    """-> (events, pulled-at-each-event, error)"""
    g = Binary.marshal(tpm_type=T, buffer=src, command_code=cc, parameter_encryption=enc, abort_on_error=True)
    evs, pulled, err = [], [], None
    try:
        while True:
            e = next(g)
            evs.append(e)
            pulled.append(src.n)
    except StopIteration:
        pass
    except DOCUMENTED as e:
        err = e
    return evs, pulled, err


def lookahead(cfg, b):
    T = get_type(cfg["type"])
    cc, enc = cfg.get("cc"), cfg.get("enc")
    assume_leaves(cfg, b)
    src = CountingIter(b)
    evs, pulled, err = _decode_counting(T, src, cc, enc)
    note("outcome:" + kind_of(err))
    conds, emitted = [], 0
    for e, p in zip(evs, pulled):
        if isinstance(e, MarshalEvent) and e.value is not ...:
            emitted += e.type._int_size
        conds.append(p <= emitted + 1)
    checks = [("at-most-one-byte-of-lookahead-at-every-event", all(conds)),
              ("never-pulls-beyond-the-input", src.n <= len(b))]
    # prefix stability at every cut
    widths = [e.type._int_size if isinstance(e, MarshalEvent) and e.value is not ... else 0 for e in evs]
    pc = []
    for k in cfg.get("cuts", []):
        pe, pp, perr = _decode_counting(T, CountingIter(b[:k]), cc, enc)
        st, va = _events_equal(pe, evs[:len(pe)]) if len(pe) <= len(evs) else (False, True)
        pc.append(st and va)
        # every field complete in the prefix is emitted
        done, acc = 0, 0
        for w in widths:
            if w and acc + w <= k:
                done += 1
            acc += w
        got = sum(1 for e in pe if isinstance(e, MarshalEvent) and e.value is not ...)
        pc.append(got >= done)
    checks.append(("prefix-events-are-a-prefix-with-every-complete-field", all(pc)))
    return checks


def sources(cfg, b):
    T = get_type(cfg["type"])
    cc, enc = cfg.get("cc"), cfg.get("enc")
    assume_leaves(cfg, b)
    base, _p, berr = _decode_counting(T, CountingIter(b), cc, enc)

    def gen():
        for x in b:
            yield x

    kinds = [("bytes", b), ("bytearray", bytearray(b)), ("list", list(b)), ("iterator", iter(list(b))), ("generator", gen())]
    checks = []
    for name, src in kinds:
        g = Binary.marshal(tpm_type=T, buffer=src, command_code=cc, parameter_encryption=enc, abort_on_error=True)
        evs, err = [], None
        try:
            while True:
                evs.append(next(g))
        except StopIteration:
            pass
        except DOCUMENTED as e:
            err = e
        st, va = _events_equal(evs, base)
        checks.append(("same-events-from-%s" % name, st and va and kind_of(err) == kind_of(berr)))
    note("sources")
    return checks


def hex_lazy(cfg, t):
    """hex front-end: when byte j is handed on, at most the characters up to the one completing it were pulled"""
    from tpmstream.io.hex.marshal import parse_hex_string

    src = CountingIter(t)
    g = parse_hex_string(src)
    pulled, out = [], []
    try:
        while True:
            out.append(next(g))
            pulled.append(src.n)
    except StopIteration:
        pass
    except ValueError:
        note("rejected")
    # position of the character completing byte j: the 2(j+1)-th non-whitespace character
    conds, seen, j = [], 0, 0
    ws = (9, 10, 11, 12, 13, 32)
    pos = []
    for i in range(len(t)):
        if not any([t[i] == w for w in ws]):
            seen += 1
            if seen % 2 == 0:
                pos.append(i)
    for j, p in enumerate(pulled):
        conds.append(j < len(pos) and p <= pos[j] + 1)
    note("bytes:%d" % len(out))
    return [("hex-pulls-no-further-than-the-completing-character", all(conds))]


def partitions(tier, seed):
    quick = tier == "quick"
    G = sp.gen()
    ccs = sp.cc_list()
    if quick:
        core = [c for c in ccs if sp.cc_name(c) in CORE]
        ccs = sorted(set(sp.rotate(ccs, seed + 10, 10) + core))
    parts = []

    def mk(prop, key, label, data, tr, cfg, cuts=False, budget=60):
        free = sp.free_unconstrained(tr)
        c = dict(cfg or {})
        if cuts:
            c["cuts"] = list(range(0, len(data)))
        return sp.M(prop, "C10", key, label, data, free, budget=budget, cfg=c, ppt=60)

    for cc in ccs:
        cmds = G.commands(cc, minimal=True)
        rsps = G.responses(cc, minimal=True)
        for label, data in cmds:
            tr = sp.trace_of(sp.cmd_key(), data)
            parts.append(mk("harness.c10:lookahead", sp.cmd_key(), "%s-%s/lookahead" % (sp.cc_name(cc), label), data, tr, None, cuts=True))
            parts.append(mk("harness.c10:sources", sp.cmd_key(), "%s-%s/sources" % (sp.cc_name(cc), label), data, tr, None))
        for label, enc, data in rsps:
            tr = sp.trace_of(sp.rsp_key(), data, cc=cc, enc=enc)
            cfg = {"cc": cc, "enc": enc}
            parts.append(mk("harness.c10:lookahead", sp.rsp_key(), "%s-%s/lookahead" % (sp.cc_name(cc), label), data, tr, cfg, cuts=True))
            parts.append(mk("harness.c10:sources", sp.rsp_key(), "%s-%s/sources" % (sp.cc_name(cc), label), data, tr, cfg))
        stream = cmds[0][1] + rsps[0][2]
        if not quick:
            stream += cmds[-1][1] + [r for r in rsps if r[0] == "sess1"][0][2]
        parts.append(sp.M("harness.c10:lookahead", "C10", sp.stream_key(), "%s-stream/lookahead" % sp.cc_name(cc), stream, [],
                          budget=60, cfg={"cuts": list(range(0, len(stream)))}))
    for key, cfg in ((sp.cmd_key(), None), (sp.rsp_key(), {"cc": ccs[0]}), (sp.stream_key(), None)):
        for n in (0, 1):
            parts.append(sp.S("harness.c10:sources", "C10", key, n, budget=20, cfg=cfg))
    for n in (1, 2, 3, 4, 5) if quick else (1, 2, 3, 4, 5, 6, 7):
        parts.append({"id": "C10/hex-lazy/len%d" % n, "prop": "harness.c10:hex_lazy", "cfg": {}, "sym": [["t", "bytes", n]],
                      "budget_s": 120 if quick else 400})
    return parts
