"""C04 - strict mode rejects exactly the inputs containing an out-of-range value."""
from engine.native import assume, note
from oracle.refdec import in_valid, pinned_layout

from . import spaces as sp
from .common import decode_full, get_type

PROP = "harness.props:strict_ref"
META = {
    "rule": "P(T): every primitive type decoded from every byte string of its width (accept <=> value in the pinned "
            "set, error attributes exact); allowed-set equality decided on a fresh symbolic member; M/value: one "
            "leaf (thorough: pairs) of a well-formed shape symbolic over its whole width, reference = RefDec.",
    "bounds": {
        "quick": "all primitive types; every constrained leaf of the minimal shapes of 9 seed-rotated command codes + core",
        "thorough": "every leaf and every adjacent pair of leaves of all shapes of all command codes",
    },
    "outside": "more than two symbolic leaves at once in M/value (all leaves at once are covered for wide types by C13/C02)",
    "wall_budget_s": {"quick": 270, "thorough": 840},
}
CORE = ("Startup", "GetCapability", "CreatePrimary", "NV_Read", "StartAuthSession", "PCR_Read")


def allowed_set(cfg, m):
    """the error's allowed set equals the pinned set, decided on a fresh symbolic member m"""
    T = get_type(cfg["type"])
    r = decode_full(T, bytes.fromhex(cfg["bad"]), True)
    assume(r.crash is None and r.err is not None and hasattr(r.err, "constraint"))
    vv = r.err.constraint.valid_values
    note("allowed-set")
    d = pinned_layout()["types"][cfg["type"]]
    real = m in vv
    want = in_valid(d["valid"], m)
    return [("allowed-set-equals-pinned", real == want)]


def invalid_value(d):
    lo = -(2 ** (8 * d["width"] - 1)) if d["signed"] else 0
    hi = 2 ** (8 * d["width"] - 1) if d["signed"] else 2 ** (8 * d["width"])
    cands = [lo, hi - 1, 0, 1, 2, 3, 0x7F, 0xFFFE, 0x12345678 % hi]
    for it in d["valid"]:
        if it["k"] != "point":
            cands += [it["lo"] - 1, it["hi"]]
        else:
            cands += [it["v"] - 1, it["v"] + 1]
    for v in cands:
        if lo <= v < hi and not in_valid(d["valid"], v):
            return v
    return None


def partitions(tier, seed):
    quick = tier == "quick"
    parts = []
    LT = sp.L()["types"]
    for k in sp.prim_keys():
        d = LT[k]
        w = d["width"]
        parts.append(sp.S(PROP, "C04", k, w, budget=40))
        bad = invalid_value(d)
        if bad is not None:
            lo = -(2 ** (8 * w - 1)) if d["signed"] else 0
            hi = 2 ** (8 * w - 1) if d["signed"] else 2 ** (8 * w)
            parts.append({"id": "C04/allowed-set/%s" % sp.short(k), "prop": "harness.c04:allowed_set",
                          "cfg": {"type": k, "bad": int(bad).to_bytes(w, "big", signed=d["signed"]).hex()},
                          "sym": [["m", "int", lo - 2, hi + 2]], "budget_s": 90})
    G = sp.gen()
    ccs = sp.cc_list()
    if quick:
        core = [c for c in ccs if sp.cc_name(c) in CORE]
        ccs = sorted(set(sp.rotate(ccs, seed + 5, 9) + core))

    def leaf_parts(key, lab, data, tr, cfg):
        out = []
        leaves = [x for x in tr if x[4] in ("leaf", "selector", "hdr", "attr") and len(LT[x[1]]["valid"]) >= 1]
        # constrained leaves only (a full-range type can never be out of range)
        def constrained(x):
            d = LT[x[1]]
            full = 2 ** (8 * d["width"])
            return not (len(d["valid"]) == 1 and d["valid"][0]["k"] == "range" and d["valid"][0]["hi"] - d["valid"][0]["lo"] == full)
        cl = [x for x in leaves if constrained(x)]
        for x in cl:
            if x[0] == ".commandCode":
                # one path per command code (117), each decoding a different layout: only on the core shapes in quick
                if quick and lab.split("-")[0] not in CORE[:3]:
                    continue
                out.append(sp.M(PROP, "C04", key, "%s/value@%s" % (lab, x[0]), data, list(range(x[2], x[2] + x[3])), budget=120, cfg=cfg))
                continue
            out.append(sp.M(PROP, "C04", key, "%s/value@%s" % (lab, x[0]), data, list(range(x[2], x[2] + x[3])), budget=40, cfg=cfg))
        if not quick:
            for x, y in zip(cl, cl[1:]):
                out.append(sp.M(PROP, "C04", key, "%s/values@%s+%s" % (lab, x[0], y[0]), data,
                                list(range(x[2], x[2] + x[3])) + list(range(y[2], y[2] + y[3])), budget=90, cfg=cfg))
        return out

    for cc in ccs:
        for label, data in G.commands(cc, minimal=quick):
            tr = sp.trace_of(sp.cmd_key(), data)
            parts.extend(leaf_parts(sp.cmd_key(), "%s-%s" % (sp.cc_name(cc), label), data, tr, None))
        for label, enc, data in G.responses(cc, minimal=quick):
            tr = sp.trace_of(sp.rsp_key(), data, cc=cc, enc=enc)
            parts.extend(leaf_parts(sp.rsp_key(), "%s-%s" % (sp.cc_name(cc), label), data, tr, {"cc": cc, "enc": enc}))
    return parts
