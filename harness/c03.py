"""C03 - strict mode accepts an input only if every size field is exact."""
from . import spaces as sp
from .c13 import size_variants

PROP = "harness.props:strict_ref"
META = {
    "rule": "M/size: one size field (commandSize, responseSize, authSize, parameterSize, any TPM2B size) of a "
            "well-formed shape symbolic over its whole width, and pairs of nested size fields symbolic together; "
            "S(T,N): every byte string for region-bearing types; U: one step of the constraint algebra from an "
            "arbitrary pre-state. Reference: RefDec on the pinned layout (outcome class, error attributes, events).",
    "bounds": {
        "quick": "every size field of the minimal shapes of 9 seed-rotated command codes + core (pairs of size fields on the core); 24 seed-rotated region-bearing structure types lengths m..min(m+3,9); 7 synthetic nested types lengths 0..8; U with <= 3 constraints",
        "thorough": "all command codes; pairs of nested size fields; lengths 0..min(m+4,14)",
    },
    "outside": "more than two symbolic size fields at once; regions nested deeper than the types allow",
    "wall_budget_s": {"quick": 270, "thorough": 840},
}

CORE = ("Startup", "GetRandom", "CreatePrimary", "NV_Read", "StartAuthSession", "Commit")


def partitions(tier, seed):
    quick = tier == "quick"
    parts = []
    T = sp.L()["types"]
    region_types = [k for k in sp.struct_keys() if T[k]["kind"] == "tpm2b" or any(
        isinstance(f[1], str) and T[f[1]]["kind"] == "tpm2b" for f in T[k].get("fields", []))]
    if quick:
        region_types = sp.rotate(region_types, seed, 24)
    for k in region_types:
        m = sp.min_size(k)
        lo, hi = (m, min(m + 3, 9)) if quick else (0, min(m + 4, 14))
        for n in range(lo, hi + 1):
            parts.append(sp.S(PROP, "C03", k, n, budget=30 if quick else 150))
    G = sp.gen()
    ccs = sp.cc_list()
    if quick:
        core = [c for c in ccs if sp.cc_name(c) in CORE]
        ccs = sorted(set(sp.rotate(ccs, seed + 4, 9) + core))
    for cc in ccs:
        for label, data in G.commands(cc, minimal=quick):
            tr = sp.trace_of(sp.cmd_key(), data)
            lab = "%s-%s" % (sp.cc_name(cc), label)
            parts.extend(size_variants(PROP, "C03", sp.cmd_key(), lab, data, tr))
            if not quick or sp.cc_name(cc) in CORE:
                parts.extend(pair_variants(sp.cmd_key(), lab, data, tr, None, quick))
        for label, enc, data in G.responses(cc, minimal=quick):
            tr = sp.trace_of(sp.rsp_key(), data, cc=cc, enc=enc)
            lab = "%s-%s" % (sp.cc_name(cc), label)
            cfg = {"cc": cc, "enc": enc}
            parts.extend(size_variants(PROP, "C03", sp.rsp_key(), lab, data, tr, cfg=cfg))
            if not quick or sp.cc_name(cc) in CORE:
                parts.extend(pair_variants(sp.rsp_key(), lab, data, tr, cfg, quick))
    # synthetic types nesting regions deeper than any real type: every byte string up to N
    from . import synth

    for k in synth.keys():
        for n in range(0, 9 if quick else 13):
            parts.append(sp.S(PROP, "C03", k, n, budget=40 if quick else 200))
    from . import c03_unit

    parts.extend(c03_unit.partitions(tier, seed))
    return parts


def pair_variants(key, label, data, tr, cfg, quick):
    """two size fields symbolic at once: the outermost one with each inner one (low byte of each only in the
    quick tier, which already spans every relation between the two sizes for these small shapes)"""
    sizes = [x for x in tr if x[4] == "size"]
    if len(sizes) < 2:
        return []
    out = []
    outer = sizes[0]
    inner = sizes[1:] if not quick else sizes[1:2]
    for x in inner:
        free = [outer[2] + outer[3] - 1] + ([x[2] + x[3] - 1] if quick else list(range(x[2], x[2] + x[3])))
        out.append(sp.M(PROP, "C03", key, "%s/sizes@%s+%s" % (label, outer[0], x[0]), data, free, budget=40, cfg=cfg))
    return out
