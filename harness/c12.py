"""C12 - decoding is a pure function of its arguments."""
from engine.native import assume, note
from tpmstream.common.event import MarshalEvent
from tpmstream.io.binary import Binary

from . import spaces as sp
from .common import get_type
from .props import _events_equal, _same_event

META = {
    "rule": "Histories of decodes in one process: A, B, A sequentially and A stepped / B complete / A finished / A "
            "again, where A and B are commands (or responses) with encrypted parameter areas of different command "
            "codes; the pre-emption point s is a symbolic integer, the encrypted-parameter bytes are symbolic; the "
            "synthesized-type cache is emptied at the start of every path.  One long history: A, every other "
            "encrypted parameter area of every command code in both directions (about 100 decodes), A again.",
    "bounds": {"quick": "12 ordered pairs from 4 seed-rotated command codes with a TPM2B first parameter; one pre-emption point; history length 3-4",
               "thorough": "all ordered pairs from 9 codes; commands and responses; third decode C between"},
    "outside": "other histories longer than 4 decodes, more than one pre-emption point, threads",
    "wall_budget_s": {"quick": 200, "thorough": 840},
}


def _reset_cache():
    from tpmstream.spec.commands.params_common import TPMS_PARAMS

    f = TPMS_PARAMS.__dict__.get("encrypted")
    f = getattr(f, "__func__", f)
    cc = getattr(f, "cache_clear", None)
    if cc is not None:
        cc()


def _run(T, b, cc, enc):
    g = Binary.marshal(tpm_type=T, buffer=b, command_code=cc, parameter_encryption=enc, abort_on_error=True)
    evs = []
    try:
        while True:
            evs.append(next(g))
    except StopIteration as s:
        return evs, s.value


def history(cfg, s, a, b):
    from tpmstream.common.object import events_to_obj

    _reset_cache()
    TA, TB = get_type(cfg["a"]["type"]), get_type(cfg["b"]["type"])
    ca, cb = cfg["a"], cfg["b"]
    # first decode of A, pre-empted after s events by a complete decode of B
    g = Binary.marshal(tpm_type=TA, buffer=a, command_code=ca.get("cc"), parameter_encryption=ca.get("enc"))
    ev1 = []
    obj1 = None
    done = False
    for _ in range(s):
        try:
            ev1.append(next(g))
        except StopIteration as st:
            obj1 = st.value
            done = True
            break
    evb, objb = _run(TB, b, cb.get("cc"), cb.get("enc"))
    if not done:
        try:
            while True:
                ev1.append(next(g))
        except StopIteration as st:
            obj1 = st.value
    note("preempted" if not done else "sequential")
    ev2, obj2 = _run(TA, a, ca.get("cc"), ca.get("enc"))
    evb2, objb2 = _run(TB, b, cb.get("cc"), cb.get("enc"))
    checks = []
    st, va = _events_equal(ev2, ev1)
    checks.append(("same-input-same-events", st and va))
    checks.append(("same-input-equal-objects", obj1 == obj2))
    checks.append(("synthesized-parameter-type-is-the-same-type", type(obj1.parameters) is type(obj2.parameters)))
    stb, vab = _events_equal(evb2, evb)
    checks.append(("other-input-unaffected", stb and vab and objb == objb2))
    reb = events_to_obj(ev1, command_code=ca.get("cc"))
    checks.append(("events-to-object-comparable-with-both", reb == obj1 and reb == obj2))
    return checks


def long_history(cfg, a):
    """A, then one decode of every other encrypted parameter area there is (commands and responses), then A again"""
    from tpmstream.common.object import events_to_obj

    _reset_cache()
    TA = get_type(cfg["a"]["type"])
    ev1, obj1 = _run(TA, a, None, None)
    n = 0
    for m in cfg["between"]:
        try:
            _run(get_type(m["type"]), bytes.fromhex(m["hex"]), m.get("cc"), m.get("enc"))
            n += 1
        except Exception:  # noqa: BLE001  (whether each of them decodes is C01's business)
            note("between-raised")
    assume(n >= 64)
    ev2, obj2 = _run(TA, a, None, None)
    note("long-history")
    st, va = _events_equal(ev2, ev1)
    reb = events_to_obj(ev1, command_code=None)
    return [("same-input-same-events", st and va), ("same-input-equal-objects", obj1 == obj2),
            ("synthesized-parameter-type-is-the-same-type", type(obj1.parameters) is type(obj2.parameters)),
            ("events-to-object-comparable-with-both", reb == obj1 and reb == obj2)]


def partitions(tier, seed):
    quick = tier == "quick"
    G = sp.gen()
    cand = [cc for cc in sp.cc_list() if G.first_is_tpm2b(sp.L()["cc"][str(cc)]["cp"])]
    enc_cmds = {}
    for cc in cand:
        for label, data in G.commands(cc):
            if label == "decrypt":
                enc_cmds[cc] = data
    codes = sp.rotate(sorted(enc_cmds), seed, 4 if quick else 9)
    parts = []
    # long history: every encrypted parameter area of every code and direction between two decodes of A
    enc_rsps = {}
    for cc in sp.cc_list():
        for label, enc, data in G.responses(cc, minimal=True):
            if label == "encrypt":
                enc_rsps[cc] = data
    for x in codes[:1 if quick else 3]:
        between = [{"type": sp.cmd_key(), "hex": enc_cmds[y].hex()} for y in sorted(enc_cmds) if y != x]
        between += [{"type": sp.rsp_key(), "hex": enc_rsps[y].hex(), "cc": y, "enc": True} for y in sorted(enc_rsps)]
        da = enc_cmds[x]
        fa = [i for i in range(len(da) - 2) if da[i:i + 5] == b"\x00\x03\x01\x02\x03"]
        parts.append({"id": "C12/%s-after-all-%d-encrypted-areas" % (sp.cc_name(x), len(between)), "prop": "harness.c12:long_history",
                      "cfg": {"a": {"type": sp.cmd_key()}, "between": between},
                      "sym": [["a", "template", da.hex(), list(range(fa[0] + 2, fa[0] + 5)) if fa else []]],
                      "budget_s": 150, "path_timeout_s": 120})
    for x in codes:
        for y in codes:
            if x == y:
                continue
            da, db = enc_cmds[x], enc_cmds[y]
            # the three encrypted-parameter bytes of each are symbolic (they follow 00 03)
            fa = [i for i in range(len(da) - 2) if da[i:i + 5] == b"\x00\x03\x01\x02\x03"]
            fb = [i for i in range(len(db) - 2) if db[i:i + 5] == b"\x00\x03\x01\x02\x03"]
            free_a = list(range(fa[0] + 2, fa[0] + 5)) if fa else []
            free_b = list(range(fb[0] + 2, fb[0] + 5)) if fb else []
            parts.append({"id": "C12/%s-vs-%s" % (sp.cc_name(x), sp.cc_name(y)), "prop": "harness.c12:history",
                          "cfg": {"a": {"type": sp.cmd_key()}, "b": {"type": sp.cmd_key()}},
                          "sym": [["s", "int", 0, 80], ["a", "template", da.hex(), free_a], ["b", "template", db.hex(), free_b]],
                          "budget_s": 120, "path_timeout_s": 60})
    # the same command once with a plain and once with an encrypted parameter area, interleaved
    for x in codes:
        plain = dict(G.commands(x)).get("sess1")
        if plain is None:
            continue
        for a, b_, tag in ((plain, enc_cmds[x], "plain-vs-encrypted"), (enc_cmds[x], plain, "encrypted-vs-plain")):
            parts.append({"id": "C12/%s-%s" % (sp.cc_name(x), tag), "prop": "harness.c12:history",
                          "cfg": {"a": {"type": sp.cmd_key()}, "b": {"type": sp.cmd_key()}},
                          "sym": [["s", "int", 0, 80], ["a", "template", a.hex(), []], ["b", "template", b_.hex(), []]],
                          "budget_s": 120, "path_timeout_s": 60})
    if not quick:
        rsp = {}
        for cc in sp.cc_list():
            for label, enc, data in G.responses(cc):
                if label == "encrypt":
                    rsp[cc] = data
        rc = sp.rotate(sorted(rsp), seed + 1, 6)
        for x in rc:
            for y in rc:
                if x != y:
                    parts.append({"id": "C12/rsp/%s-vs-%s" % (sp.cc_name(x), sp.cc_name(y)), "prop": "harness.c12:history",
                                  "cfg": {"a": {"type": sp.rsp_key(), "cc": x, "enc": True}, "b": {"type": sp.rsp_key(), "cc": y, "enc": True}},
                                  "sym": [["s", "int", 0, 80], ["a", "template", rsp[x].hex(), []], ["b", "template", rsp[y].hex(), []]],
                                  "budget_s": 120, "path_timeout_s": 60})
    return parts
