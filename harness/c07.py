"""C07 - warn mode and strict mode agree up to the first problem."""
from . import spaces as sp
from .c13 import size_variants

PROP = "harness.props:warn_vs_strict"
META = {
    "rule": "Both modes of the real decoder on the same symbolic bytes (relational, no model): S(T,N); M/size, "
            "M/value (all leaves) and M/cut variants of command/response shapes.",
    "bounds": {
        "quick": "structure types (seed-rotated third + list-bearing types) lengths m-1..min(m+2,8); synthetic nested types 0..8; primitive types; shapes of 8 seed-rotated command codes + PCR_Read, GetCapability",
        "thorough": "all structure types lengths 0..min(m+4,12); all command codes",
    },
    "outside": "inputs neither within N nor an instance of an explored shape; warn-mode behaviour after the first "
               "warning (C08)",
    "wall_budget_s": {"quick": 270, "thorough": 840},
}


def partitions(tier, seed):
    quick = tier == "quick"
    parts = []
    for k in sp.prim_keys():
        w = sp.L()["types"][k]["width"]
        for n in (w - 1, w, w + 1):
            parts.append(sp.S(PROP, "C07", k, n, budget=25))
    sk = sp.struct_keys()
    if quick:
        fixed = [k for k in sk if sp.short(k) in ("TPML_PCR_SELECTION", "TPML_DIGEST", "TPML_CC", "TPML_ALG", "TPML_HANDLE", "TPM2B_ECC_POINT")]
        sk = sorted(set(sp.rotate(sk, seed, len(sk) // 3) + fixed))
    for k in sk:
        m = sp.min_size(k)
        lo, hi = (max(0, m - 1), min(m + 2, 8)) if quick else (0, min(m + 4, 12))
        for n in range(lo, hi + 1):
            parts.append(sp.S(PROP, "C07", k, n, budget=30 if quick else 150))
    from . import synth

    for k in synth.keys():
        for n in range(0, 9 if quick else 12):
            parts.append(sp.S(PROP, "C07", k, n, budget=40 if quick else 200))
    G = sp.gen()
    ccs = sp.cc_list()
    if quick:
        ccs = sorted(set(sp.rotate(ccs, seed + 7, 8) + [c for c in ccs if sp.cc_name(c) in ("PCR_Read", "GetCapability")]))
    for cc in ccs:
        for label, data in G.commands(cc, minimal=quick):
            tr = sp.trace_of(sp.cmd_key(), data)
            lab = "%s-%s" % (sp.cc_name(cc), label)
            parts.extend(size_variants(PROP, "C07", sp.cmd_key(), lab, data, tr))
            parts.append(sp.M(PROP, "C07", sp.cmd_key(), lab + "/values", data, sp.free_positions(tr), budget=40))
            for k in range(0, len(data), 3 if quick else 1):
                parts.append(sp.M(PROP, "C07", sp.cmd_key(), "%s/cut%d" % (lab, k), data[:k], [], budget=20))
        for label, enc, data in G.responses(cc, minimal=quick):
            tr = sp.trace_of(sp.rsp_key(), data, cc=cc, enc=enc)
            lab = "%s-%s" % (sp.cc_name(cc), label)
            cfg = {"cc": cc, "enc": enc}
            parts.extend(size_variants(PROP, "C07", sp.rsp_key(), lab, data, tr, cfg=cfg))
            parts.append(sp.M(PROP, "C07", sp.rsp_key(), lab + "/values", data, sp.free_positions(tr), budget=40, cfg=cfg))
    return parts
