"""C01 - well-formed encodings decode to exactly the field-by-field event sequence."""
from . import spaces as sp

PROP = "harness.props:strict_ref_wf"
META = {
    "rule": "M(shape): each-choice shapes generated from the LIVE tables, every free leaf symbolic over the values "
            "its (live) type allows; P(T): every primitive type at its width; the reference side is RefDec on the "
            "PINNED layout. A path is non-trivial when the reference outcome was computed and compared.",
    "bounds": {
        "quick": "all 102 primitive types; every generated shape of ALL structure types and of a seed-rotated sixth of the 468 command/response areas; the plain and the encrypted-parameter shapes of all 117 command codes; "
                 "all command/response shapes (0-3 sessions, decrypt/encrypt on any session, failed and bad-tag responses) of 9 "
                 "seed-rotated command codes plus a fixed core (Startup, GetRandom, CreatePrimary, GetCapability, "
                 "NV_Read, PCR_Read, StartAuthSession)",
        "thorough": "every generated shape of all structure types and all 117 command codes",
    },
    "outside": "lists longer than 2, byte buffers longer than 3 inside shapes, more than 3 sessions; shapes the "
               "each-choice generator does not produce (combinations of non-default choices)",
    "wall_budget_s": {"quick": 270, "thorough": 840},
}

CORE = ("Startup", "GetRandom", "CreatePrimary", "GetCapability", "NV_Read", "PCR_Read", "StartAuthSession")


def leaves_of(tr):
    return [[off, w, t] for path, t, off, w, role in tr if role == "leaf"]


def item_of(t, v):
    """the item (interval or point) of the live value set of type t that contains v"""
    for it in sp.L()["types"][t]["valid"]:
        if it["k"] == "point":
            if it["v"] == v:
                return it
        elif it["lo"] <= v < it["hi"]:
            return it
    return None


def shape_parts(pid, prop, key, label, data, cc=None, enc=None, budget=30, enum_leaves=False):
    """One partition per shape: every leaf that lies in an interval of its type's value set is symbolic over
    that whole interval (all at once: exactly the values for which the shape stays the same shape).  Leaves
    sitting on an enumeration point stay concrete here; enum_leaves=True adds one partition per such leaf with
    the leaf symbolic over its whole value set (the decoder forks once per member)."""
    tr = sp.trace_of(key, data, cc=cc, enc=enc)
    base = {}
    if cc is not None:
        base["cc"] = cc
    if enc is not None:
        base["enc"] = enc
    leaves = [x for x in tr if x[4] == "leaf"]
    sym, cons, points = [], [], []
    for x in leaves:
        path, t, off, n, role = x
        d = sp.L()["types"][t]
        v = int.from_bytes(data[off:off + n], "big", signed=d["signed"])
        it = item_of(t, v)
        if it is not None and it["k"] != "point":
            sym.append(x)
            cons.append([off, n, t, it["lo"], it["hi"]])
        else:
            points.append(x)
    cfg = dict(base, leaves=cons)
    out = [sp.M(prop, pid, key, label, data, sp.free_positions(sym), budget=budget, cfg=cfg)]
    if enum_leaves:
        for x in points:
            cfg = dict(base, leaves=[[x[2], x[3], x[1], None, None]])
            out.append(sp.M(prop, pid, key, "%s/enum@%s" % (label, x[0]), data, sp.free_positions([x]), budget=budget, cfg=cfg))
    return out


def partitions(tier, seed):
    quick = tier == "quick"
    parts = []
    for k in sp.prim_keys():
        w = sp.L()["types"][k]["width"]
        parts.append(sp.S("harness.props:strict_ref", "C01", k, w, budget=30, cfg={"only": ["OK"]}))
    G = sp.gen()
    sk = sp.struct_keys() + sp.area_keys()
    if quick:
        # every structure type with all its generated variants (one path each: every union arm of every type
        # is decoded in every run); the 468 command/response areas rotate
        sk = sp.struct_keys() + sp.rotate(sp.area_keys(), seed, len(sp.area_keys()) // 6)
    for k in sk:
        for i, data in enumerate(G.variants(k)):
            parts.extend(shape_parts("C01", PROP, k, "v%d" % i, data, budget=20, enum_leaves=not quick))
    ccs = sp.cc_list()
    if quick:
        core = [c for c in ccs if sp.cc_name(c) in CORE]
        ccs = sorted(set(sp.rotate(ccs, seed + 3, 9) + core))
    for cc in ccs:
        for label, data in G.commands(cc):
            parts.extend(shape_parts("C01", PROP, sp.cmd_key(), "%s-%s" % (sp.cc_name(cc), label), data, enum_leaves=not quick))
        for label, enc, data in G.responses(cc):
            parts.extend(shape_parts("C01", PROP, sp.rsp_key(), "%s-%s" % (sp.cc_name(cc), label), data, cc=cc, enc=enc, enum_leaves=not quick))
    if quick:
        # the encrypted-parameter layouts of ALL command codes (cheap: one path each); the rotation above only
        # covers 14 + core codes and the synthesized layout depends on each code's parameter list
        for cc in sp.cc_list():
            if cc in ccs:
                continue
            for label, data in G.commands(cc):
                if label in ("nosess", "decrypt", "decrypt-2nd"):
                    parts.extend(shape_parts("C01", PROP, sp.cmd_key(), "%s-%s" % (sp.cc_name(cc), label), data))
            for label, enc, data in G.responses(cc):
                if label in ("nosess", "encrypt", "encrypt-1st"):
                    parts.extend(shape_parts("C01", PROP, sp.rsp_key(), "%s-%s" % (sp.cc_name(cc), label), data, cc=cc, enc=enc))
    return parts
