"""C13 - a constraint error accounts for every input byte (strict mode)."""
from . import spaces as sp

PROP = "harness.props:accounting"
META = {
    "rule": "Strict-mode rejections with a ConstraintViolatedError: S(T,N) all bytes symbolic for region-bearing "
            "types; M/size (one size field symbolic over its whole width) and M/value (all leaves symbolic) on "
            "command/response shapes, including faults in the final field / last byte.",
    "bounds": {
        "quick": "TPM2B and nested structure types (seed-rotated half) lengths m..min(m+3,9); synthetic nested types 0..8; shapes of 12 "
                 "seed-rotated command codes: every size field over its full width, all leaves over theirs",
        "thorough": "all structure types lengths 0..min(m+4,14); all command codes",
    },
    "outside": "inputs that are neither within N nor an instance of an explored shape; more than one symbolic size field at a time",
    "wall_budget_s": {"quick": 270, "thorough": 840},
}


def size_variants(prop, pid, key, label, data, tr, cfg=None, budget=40):
    parts = []
    for path, t, off, w, role in tr:
        if role != "size":
            continue
        parts.append(sp.M(prop, pid, key, "%s/size@%s" % (label, path), data, list(range(off, off + w)), budget=budget, cfg=cfg))
    return parts


def partitions(tier, seed):
    quick = tier == "quick"
    parts = []
    sk = [k for k in sp.struct_keys()]
    if quick:
        sk = sp.rotate(sk, seed, len(sk) // 2)
    for k in sk:
        m = sp.min_size(k)
        lo, hi = (m, min(m + 3, 9)) if quick else (0, min(m + 4, 14))
        for n in range(lo, hi + 1):
            parts.append(sp.S(PROP, "C13", k, n, budget=25 if quick else 120))
    from . import synth

    for k in synth.keys():
        for n in range(0, 9 if quick else 12):
            parts.append(sp.S(PROP, "C13", k, n, budget=40 if quick else 200))
    G = sp.gen()
    ccs = sp.cc_list()
    if quick:
        ccs = sp.rotate(ccs, seed + 2, 12)
    for cc in ccs:
        for label, data in G.commands(cc, minimal=quick):
            tr = sp.trace_of(sp.cmd_key(), data)
            lab = "%s-%s" % (sp.cc_name(cc), label)
            parts.extend(size_variants(PROP, "C13", sp.cmd_key(), lab, data, tr))
            parts.append(sp.M(PROP, "C13", sp.cmd_key(), lab + "/values", data, sp.free_positions(tr), budget=40))
        for label, enc, data in G.responses(cc, minimal=quick):
            tr = sp.trace_of(sp.rsp_key(), data, cc=cc, enc=enc)
            lab = "%s-%s" % (sp.cc_name(cc), label)
            cfg = {"cc": cc, "enc": enc}
            parts.extend(size_variants(PROP, "C13", sp.rsp_key(), lab, data, tr, cfg=cfg))
            parts.append(sp.M(PROP, "C13", sp.rsp_key(), lab + "/values", data, sp.free_positions(tr), budget=40, cfg=cfg))
    return parts
