"""C18 - response codes are classified and named by the TPM 2.0 format rules."""
from engine.native import assume, note
from oracle.refdec import pinned_layout

from . import spaces as sp
from .c17 import bit_rows, row_conds
from .common import get_type

META = {
    "rule": "v symbolic over all 32 bits with (v == 0 or bit 7 or bit 8 set), 16 partitions on bits 8-11; text form "
            "against the format rule written from the property statement with names from the pinned tables; the "
            "attribute masks of each code partition the word; rows carry the classification; one partition renders "
            "ten fixed codes after an arbitrary 32-bit word was rendered in the same path (no dependence on history).",
    "bounds": {"quick": "all 2^32 values that are TPM 2.0 codes (reserved high bits included)", "thorough": "same"},
    "outside": "TPM 1.2 codes (bits 7 and 8 both clear, non-zero): the property excludes them",
    "wall_budget_s": {"quick": 250, "thorough": 600},
}

RC = "tpmstream.spec.common.tpm_rc:TPM_RC"


def lookup(table, code):
    """name for a (possibly symbolic) code from a pinned table; 'None' for codes the table does not list"""
    for k, (n, _d) in table.items():
        if code == int(k):
            return n
    return "None"


def expected_text(v, tabs):
    if v == 0:
        return "TPM_RC.SUCCESS", "success"
    bit = lambda i: (v // 2 ** i) % 2 == 1
    if bit(7):
        name = lookup(tabs["TPM_RC_FMT1_MAP"], v % 64)
        if bit(6):
            n = (v // 256) % 16
            return "TPM_RC." + name + " (Parameter No. " + str(n) + ")", "fmt1-parameter"
        if bit(11):
            n = (v // 256) % 8
            return "TPM_RC." + name + " (Session No. " + str(n) + ")", "fmt1-session"
        n = (v // 256) % 8
        return "TPM_RC." + name + " (Handle No. " + str(n) + ")", "fmt1-handle"
    if bit(10):
        return "TPM_RC.UNKNOWN (Vendor-defined)", "fmt0-vendor"
    if bit(11):
        return "TPM_RC." + lookup(tabs["TPM_RC_FMT0_WARN_MAP"], v % 128), "fmt0-warning"
    return "TPM_RC." + lookup(tabs["TPM_RC_FMT0_ERROR_MAP"], v % 128), "fmt0-error"


def rc_text(cfg, h, l):
    hi = cfg["bits_8_11"]
    v = h * 4096 + hi * 256 + l  # reserved high bits, concrete bits 8-11, low byte
    if hi == 0:
        assume(any([all([h == 0, l == 0]), l >= 128]))
    elif hi % 2 == 0:
        assume(l >= 128)
    T = get_type(RC)
    x = T(v)
    tabs = pinned_layout()["rc_tables"]
    want, cls = expected_text(v, tabs)
    note(cls)
    got = format(x)
    got2 = str(x)
    checks = [("text-form[%s]" % cls, got == want), ("str-equals-format", got2 == want)]
    attrs = x.attributes()
    masks = [(a._name, a._value, a._details) for a in attrs]
    if v == 0:
        checks.append(("success-has-no-rows", masks == []))
        return checks
    union, disjoint = 0, True
    for n, m, d in masks:
        if union & m:
            disjoint = False
        union |= m
    checks.append(("rows-partition-the-word[%s]" % cls, disjoint and union == 0xFFFFFFFF))
    names = [n for n, m, d in masks]
    det = {n: d for n, m, d in masks}
    msk = {n: m for n, m, d in masks}
    fmt1 = cls.startswith("fmt1")
    cl = [("format" in names) and msk.get("format") == 0x80]
    if fmt1:
        cl.append("parameterError" in names and msk.get("parameterError") == 0x40)
        if cls == "fmt1-parameter":
            cl.append(msk.get("parameterNumber") == 0xF00 and det.get("parameterNumber") == "Parameter No. " + str((v // 256) % 16))
        elif cls == "fmt1-session":
            cl.append(msk.get("sessionError") == 0x800 and msk.get("sessionNumber") == 0x700
                      and det.get("sessionNumber") == "Session No. " + str((v // 256) % 8))
        else:
            cl.append(msk.get("sessionError") == 0x800 and msk.get("handleNumber") == 0x700
                      and det.get("handleNumber") == "Handle No. " + str((v // 256) % 8))
        cl.append(msk.get("code") == 0x3F)
        name = lookup(tabs["TPM_RC_FMT1_MAP"], v % 64)
        cl.append(det.get("code") is not None and det["code"].startswith(name + ": "))
    else:
        cl.append(msk.get("vendorDefined") == 0x400 and msk.get("severity") == 0x800 and msk.get("code") == 0x7F)
        cl.append(det.get("severity") == ("Warning" if (v // 2048) % 2 == 1 else "Error"))
        if cls == "fmt0-warning":
            cl.append(det["code"].startswith(lookup(tabs["TPM_RC_FMT0_WARN_MAP"], v % 128) + ": "))
        elif cls == "fmt0-error":
            cl.append(det["code"].startswith(lookup(tabs["TPM_RC_FMT0_ERROR_MAP"], v % 128) + ": "))
    checks.append(("rows-carry-the-classification[%s]" % cls, all(cl)))
    return checks


def rc_rows(cfg, h, l):
    """bit rows of the real pretty printer for a response code: each row shows exactly its field's bits"""
    if "bits_8_11" in cfg:
        v = cfg["bits_8_11"] * 256 + l
        if cfg["bits_8_11"] % 2 == 0:
            assume(l >= 128)
    else:
        v = h * 4096 + cfg["low12"]
    T = get_type(RC)
    x = T(v)
    masks = [(a._name, a._value) for a in x.attributes()]
    rows, parsed = bit_rows(T, x)
    note("rows")
    conds = [len(rows) == len(masks)]
    for (n, m), (rn, rm, prefix_ok, bits, tail, tmpl_tail, details) in zip(masks, parsed):
        conds.append(prefix_ok)
        conds.extend(row_conds(v, 32, m, bits))
    return [("bit-rows-show-the-field-bits", all(conds))]


AFTER_TARGETS = (0, 0x081, 0x0C1, 0x881, 0x101, 0x901, 0x501, 0xFFF, 0x9A2, 0x000B0101)


def rc_after(cfg, d):
    """the text and rows of a code do not depend on which code (any 32-bit word, TPM 1.2 codes and bare layer
    bytes included) was rendered just before in the same process"""
    T = get_type(RC)
    tabs = pinned_layout()["rc_tables"]
    y = T(d)
    try:
        format(y)
        str(y)
        y.attributes()
    except Exception:  # noqa: BLE001  (what the disturbing code renders as is not this check's business)
        note("disturber-raised")
    checks = []
    texts, rows = [], []
    for t in AFTER_TARGETS:
        x = T(t)
        want, cls = expected_text(t, tabs)
        texts.append(all([format(x) == want, str(x) == want]))
        masks = [a._value for a in x.attributes()]
        rows.append((masks == []) if t == 0 else (sum(masks) == 0xFFFFFFFF))
    checks.append(("text-form-after-another-code", all(texts)))
    checks.append(("rows-after-another-code", all(rows)))
    note("after")
    return checks


def partitions(tier, seed):
    parts = [{"id": "C18/after-any-code", "prop": "harness.c18:rc_after", "cfg": {},
              "sym": [["d", "int", 0, 2 ** 32]], "budget_s": 200, "path_timeout_s": 60}]
    H = ["h", "int", 0, 2 ** 20]
    Z = ["h", "int", 0, 1]
    Lo = ["l", "int", 0, 256]
    for hi in range(16):
        parts.append({"id": "C18/text/bits8-11=%x" % hi, "prop": "harness.c18:rc_text", "cfg": {"bits_8_11": hi},
                      "sym": [H, Lo], "budget_s": 200, "path_timeout_s": 60})
        parts.append({"id": "C18/rows/bits8-11=%x" % hi, "prop": "harness.c18:rc_rows", "cfg": {"bits_8_11": hi},
                      "sym": [Z, Lo], "budget_s": 200, "path_timeout_s": 60})
    # reserved high bits symbolic, one representative low-12-bit pattern per class
    for low in (0x081, 0x0C1, 0x881, 0x101, 0x901, 0x501, 0xFFF):
        parts.append({"id": "C18/rows/high-bits/low12=%03x" % low, "prop": "harness.c18:rc_rows", "cfg": {"low12": low},
                      "sym": [H, ["l", "int", 0, 1]], "budget_s": 200, "path_timeout_s": 60})
    return parts
