"""C09 - a command/response stream decodes as its messages decoded one by one."""
from engine.native import assume, note
from tpmstream.common.event import MarshalEvent

from . import spaces as sp
from .common import decode_full, get_type
from tpmstream.common.event import WarningEvent

from .props import _events_equal, _same_event, assume_leaves, kind_of

META = {
    "rule": "Stream shapes = concatenations of generated command/response pairs (the response of each pair generated "
            "for the command's code; sessions, failed responses, encrypted first parameters mixed), wide leaves and "
            "the session attribute bytes symbolic. The stream decode is compared with the single decodes chained by "
            "the harness: response i gets the command code and the encrypt request of command i.",
    "bounds": {"quick": "1- and 2-pair streams over 14 seed-rotated command codes + core", "thorough": "all command codes, 3-pair mixes"},
    "outside": "streams of more than 3 pairs; message boundaries other than the ones the messages' own size fields give",
    "wall_budget_s": {"quick": 250, "thorough": 840},
}
CORE = ("Startup", "GetRandom", "StartAuthSession")


def _stream_events_equal(evs, ref):
    """like props._events_equal, but warnings are compared too (same error class at the same position)"""
    if len(evs) != len(ref):
        return False, True
    st, va = [], []
    for a, e in zip(evs, ref):
        if isinstance(a, WarningEvent) or isinstance(e, WarningEvent):
            st.append(isinstance(a, WarningEvent) and isinstance(e, WarningEvent) and type(a.error) is type(e.error))
            continue
        x, y = _same_event(a, e)
        st.append(x)
        va.append(y)
    return all(st), all(va)


def stream_vs_singles(cfg, b):
    from tpmstream.common.object import events_to_objs
    from tpmstream.spec.commands import Command, CommandResponseStream, Response

    assume_leaves(cfg, b)
    lens = cfg["lens"]
    strict = not cfg.get("warn")
    if cfg.get("cc_in"):
        v = int.from_bytes(b[6:10], "big")
        assume(any([v == c for c in cfg["cc_in"]]))
    s = decode_full(CommandResponseStream, b, strict)
    if s.crash is not None:
        note("stream-crash")
        assume(False)  # internal errors are C06's business
    exp_events, exp_objs = [], []
    exp_err = None
    off = 0
    cc, enc = None, None
    for i, n in enumerate(lens):
        part = b[off:off + n]
        off += n
        if i % 2 == 0:
            r = decode_full(Command, part, strict)
        else:
            r = decode_full(Response, part, strict, cc, enc)
        if r.crash is not None:
            from engine.native import exc_tag

            return [("single-decode-crashes-where-the-stream-does-not:%s" % exc_tag(r.crash), False)]
        exp_events.extend(r.events)
        if r.err is not None:
            exp_err = r.err
            break
        exp_objs.append(r.obj)
        if i % 2 == 0:
            if r.obj is None or r.obj.commandCode is None:
                assume(False)  # warn mode abandoned the command: no pairing defined
            cc = r.obj.commandCode
            area = r.obj.authorizationArea
            enc = (True if area is not None and any(a.sessionAttributes.encrypt for a in area) else None)
    note("stream:%s" % kind_of(exp_err))
    checks = [("stream-outcome-equals-chained-single-decodes", kind_of(s.err) == kind_of(exp_err))]
    if kind_of(s.err) != kind_of(exp_err):
        return checks
    # a single message that ends early is 'depleted'; inside a stream the same bytes continue with the next
    # message, so only complete prefixes are compared when the chain stopped at an error
    checks.append(("stream-event-count", len(s.events) == len(exp_events)))
    if len(s.events) != len(exp_events):
        return checks
    st, va = _stream_events_equal(s.events, exp_events)
    checks.append(("stream-events-equal-concatenation", st and va))
    if exp_err is None and not any(isinstance(e, WarningEvent) for e in exp_events):
        objs = list(events_to_objs(s.events))
        checks.append(("one-object-per-message", len(objs) == len(exp_objs)))
        if len(objs) == len(exp_objs):
            checks.append(("objects-in-order-equal-single-decodes", all([type(x) is type(y) for x, y in zip(objs, exp_objs)]) and objs == exp_objs))
    return checks


def partitions(tier, seed):
    quick = tier == "quick"
    G = sp.gen()
    ccs = sp.cc_list()
    if quick:
        core = [c for c in ccs if sp.cc_name(c) in CORE]
        ccs = sorted(set(sp.rotate(ccs, seed + 9, 14) + core))
    pairs = []
    for cc in ccs:
        cmds = dict(G.commands(cc, minimal=quick))
        rsps = {l: (e, d) for l, e, d in G.responses(cc, minimal=quick)}
        rsps.update({l: (e, d) for l, e, d in G.responses(cc, minimal=False) if l == "fail-badtag"})
        combos = [("nosess", "nosess"), ("sess1", "sess1"), ("nosess", "fail"), ("sess1", "fail"), ("nosess", "fail-badtag")]
        if "decrypt" in cmds:
            combos.append(("decrypt", "sess1"))
        for cl, rl in combos:
            if cl in cmds and rl in rsps:
                pairs.append(("%s-%s+%s" % (sp.cc_name(cc), cl, rl), cc, cmds[cl], rsps[rl][1], None))
        if "encrypt" in rsps and "sess1" in cmds:
            # the command requests response encryption: set the encrypt attribute (0x40) in its session
            c = cmds["sess1"]
            tr = sp.trace_of(sp.cmd_key(), c)
            at = [x for x in tr if x[4] == "attr"][0][2]
            c2 = c[:at] + bytes([c[at] | 0x40]) + c[at + 1:]
            pairs.append(("%s-sess1enc+encrypt" % sp.cc_name(cc), cc, c2, rsps["encrypt"][1], True))
    # two sessions, the encrypt request on the first / on the second one only (any session may request it)
    for cc in ccs:
        rs = {l: (e, d) for l, e, d in G.responses(cc, minimal=False)}
        cs = dict(G.commands(cc, minimal=False))
        if "encrypt-2nd" not in rs or "sess2" not in cs:
            continue
        c = cs["sess2"]
        tr = sp.trace_of(sp.cmd_key(), c)
        ats = [x[2] for x in tr if x[4] == "attr"]
        for which in (0, 1):
            c2 = bytearray(c)
            c2[ats[which]] |= 0x40
            r = bytearray(rs["encrypt-2nd"][1])
            rtr = sp.trace_of(sp.rsp_key(), bytes(r), cc=cc, enc=True)
            rat = [x[2] for x in rtr if x[4] == "attr"]
            # the response echoes the attribute on the same session
            r[rat[0]] = 0x41 if which == 0 else 0x01
            r[rat[1]] = 0x41 if which == 1 else 0x01
            pairs.append(("%s-sess2enc%d+encrypt" % (sp.cc_name(cc), which + 1), cc, bytes(c2), bytes(r), True))
    parts = []

    def mk(label, msgs, attrs=False):
        data = b"".join(m for m, _t in msgs)
        free, leaves, off = [], [], 0
        for m, (key, cc, enc) in msgs:
            tr = sp.trace_of(key, m, cc=cc, enc=enc)
            for x in tr:
                if x[4] == "leaf" and sp.is_full_range(x[1]):
                    free.extend(range(off + x[2], off + x[2] + x[3]))
                if attrs and x[4] == "attr":
                    # the session attribute bytes decide decrypt / encrypt: symbolic over all 256 values
                    free.extend(range(off + x[2], off + x[2] + x[3]))
            off += len(m)
        return sp.M("harness.c09:stream_vs_singles", "C09", sp.stream_key(), label, data, free, budget=40,
                    cfg={"lens": [len(m) for m, _t in msgs]})

    def warn_variant(label, cc, c, r, enc):
        """warn mode, one constrained leaf of the response (and one of the command) symbolic over its width"""
        out = []
        rtr = sp.trace_of(sp.rsp_key(), r, cc=cc, enc=enc)
        ctr = sp.trace_of(sp.cmd_key(), c)
        for which, tr, off0 in (("rsp", rtr, len(c)), ("cmd", ctr, 0)):
            xs = [x for x in tr if x[4] == "leaf" and not sp.is_full_range(x[1])][:1]
            if not xs:
                continue
            free = [off0 + i for i in range(xs[0][2], xs[0][2] + xs[0][3])]
            data = c + r
            out.append(sp.M("harness.c09:stream_vs_singles", "C09", sp.stream_key(), "%s/warn-%s-value" % (label, which), data, free,
                            budget=40, cfg={"lens": [len(c), len(r)], "warn": True}))
        return out

    for label, cc, c, r, enc in pairs:
        parts.append(mk(label, [(c, (sp.cmd_key(), None, None)), (r, (sp.rsp_key(), cc, enc))]))
        if label.endswith("nosess+nosess") or label.endswith("sess1+sess1"):
            parts.extend(warn_variant(label, cc, c, r, enc))
        if "sess1" in label:
            parts.append(mk(label + "/attrs", [(c, (sp.cmd_key(), None, None)), (r, (sp.rsp_key(), cc, enc))], attrs=True))
        parts.append(mk(label + "/cmd-only", [(c, (sp.cmd_key(), None, None))]))
    # systematic: an encrypting pair followed by a session-less pair whose response starts with a TPM2B (the
    # response-encryption request must not leak from one pair into the next), and the reverse order
    encp = [x for x in pairs if x[4]]
    plain = [x for x in pairs if x[0].endswith("-nosess+nosess") and G.first_is_tpm2b(sp.L()["cc"][str(x[1])]["rp"])]
    for e in encp[: (4 if quick else len(encp))]:
        for q in plain[: (3 if quick else len(plain))]:
            for first, second in ((e, q), (q, e)):
                msgs = []
                for label, cc, c, r, enc in (first, second):
                    msgs += [(c, (sp.cmd_key(), None, None)), (r, (sp.rsp_key(), cc, enc))]
                parts.append(mk("%s>>%s" % (first[0], second[0]), msgs))
    # the command code itself symbolic: commands without handles and parameters followed by a failed response
    # (header-only for every code) - the stream must pair the response with whichever code the solver picks
    empty = [cc for cc in sp.cc_list() if not sp.L()["types"][sp.L()["cc"][str(cc)]["ch"]]["fields"]
             and not sp.L()["types"][sp.L()["cc"][str(cc)]["cp"]]["fields"]]
    if empty:
        c = G.commands(empty[0], minimal=True)[0][1]
        r = [x for x in G.responses(empty[0], minimal=True) if x[0] == "fail"][0][2]
        data = c + r
        parts.append(sp.M("harness.c09:stream_vs_singles", "C09", sp.stream_key(), "symbolic-command-code+fail", data, [6, 7, 8, 9],
                          budget=120, cfg={"lens": [len(c), len(r)], "cc_in": empty}))
    # two (thorough: three) pairs mixed
    import random

    rnd = random.Random(seed)
    k = 40 if quick else 300
    for _ in range(k):
        sel = [rnd.choice(pairs) for _ in range(2 if quick else rnd.choice((2, 3)))]
        msgs = []
        for label, cc, c, r, enc in sel:
            msgs += [(c, (sp.cmd_key(), None, None)), (r, (sp.rsp_key(), cc, enc))]
        parts.append(mk("+".join(x[0] for x in sel), msgs))
    return parts
