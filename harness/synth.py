"""Synthetic layout types (declared with the real tpm_dataclass decorator, decoded by the real walker) that nest
size regions deeper than any real TPM type, small enough to exhaust with every byte symbolic (DESIGN 7/C03 d)."""
from tpmstream.spec.common.values import tpm_dataclass
from tpmstream.spec.structures.base_types import BYTE, UINT8, UINT16


@tpm_dataclass
class TPM2B_SYN_LEAF:
    size: UINT16
    buffer: list[BYTE]


@tpm_dataclass
class TPMS_SYN_MID:
    a: TPM2B_SYN_LEAF
    b: UINT8


@tpm_dataclass
class TPM2B_SYN_MID:
    size: UINT16
    mid: TPMS_SYN_MID


@tpm_dataclass
class TPMS_SYN_OUTER:
    x: TPM2B_SYN_MID
    y: TPM2B_SYN_LEAF


@tpm_dataclass
class TPM2B_SYN_OUTER:
    """TPM2B in TPM2B in TPM2B, with a sibling after the structured inner one"""

    size: UINT16
    outer: TPMS_SYN_OUTER


@tpm_dataclass
class TPML_SYN:
    """counted list of structured TPM2Bs"""

    count: UINT8
    items: list[TPM2B_SYN_MID]


@tpm_dataclass
class TPM2B_SYN_LIST:
    size: UINT16
    lst: TPML_SYN


ALL = [TPM2B_SYN_LEAF, TPMS_SYN_MID, TPM2B_SYN_MID, TPMS_SYN_OUTER, TPM2B_SYN_OUTER, TPML_SYN, TPM2B_SYN_LIST]

_LAYOUT = [None]


def layout():
    """the pinned layout extended by the dump of the synthetic types (dumped at run time by the same dumper)"""
    if _LAYOUT[0] is None:
        import copy

        from oracle.layout_dump import Dumper
        from oracle.refdec import pinned_layout

        L = copy.deepcopy(pinned_layout())
        D = Dumper()
        for t in ALL:
            D.key(t)
        for k, d in D.types.items():
            L["types"].setdefault(k, d)
        _LAYOUT[0] = L
    return _LAYOUT[0]


def keys():
    return ["harness.synth:" + t.__name__ for t in ALL]
