"""C08 - warn mode reports problems as warnings and keeps decoding."""
from engine.native import assume, exc_tag, note
from oracle.refdec import ELL, RefDec, pinned_layout
from tpmstream.common.error import (
    AnticipatedSizeConstraintExceededError,
    InputStreamBytesDepletedError,
    InputStreamSuperfluousBytesError,
    SizeConstraintExceededError,
    SizeConstraintSubceededError,
    ValueConstraintViolatedError,
)
from tpmstream.common.event import MarshalEvent, WarningEvent

from . import spaces as sp
from .common import decode_full, get_type
from .props import as_list, assume_leaves, event_conds, kind_of

META = {
    "rule": "Warn-mode decode of S(T,N) (region-bearing types), M/size, M/value and double-fault variants of "
            "shapes: (1) nothing but the two documented ValueConstraintViolatedError cases escapes; (2) tiling "
            "oracle over the emitted events; (3) value-only problems: events equal the lenient reference "
            "interpretation with one warning directly after each offending event.",
    "bounds": {"quick": "24 seed-rotated region-bearing structure types lengths m..min(m+3,8); synthetic nested types 0..8; shapes of 5 seed-rotated command codes + core: every size field, the tag, and the first three constrained leaves symbolic",
               "thorough": "all structure types lengths 0..min(m+4,12); all command codes; pairs of size fields"},
    "outside": "inputs neither within N nor an instance of an explored shape",
    "wall_budget_s": {"quick": 270, "thorough": 840},
}
CORE = ("Startup", "GetRandom", "Commit", "StartAuthSession")
SIZE_ROOTS = (".commandSize", ".responseSize")


def warn_mode(cfg, b):
    T = get_type(cfg["type"])
    cc, enc = cfg.get("cc"), cfg.get("enc")
    assume_leaves(cfg, b)
    r = decode_full(T, b, False, cc, enc)
    events = r.events
    warns = [e for e in events if isinstance(e, WarningEvent)]
    kinds = [kind_of(w.error) for w in warns]
    note("warnings:%s" % ",".join(sorted(set(kinds))) if kinds else "no-warning")
    checks = []
    # (1) escapes
    if r.crash is not None:
        return [("escape:%s" % exc_tag(r.crash), False)]
    if r.err is not None:
        # only an unknown command code / a selector without member may abort (ValueConstraintViolatedError)
        ok = isinstance(r.err, ValueConstraintViolatedError)
        checks.append(("only-the-documented-value-errors-abort[%s]" % kind_of(r.err), ok))
        if not ok:
            return checks
        note("documented-abort")
    # (2) tiling
    n = len(b)
    cursor = 0
    msg_start = 0
    after = {}
    conds = []
    depleted = False
    structure_ok = True
    for e in events:
        if isinstance(e, MarshalEvent):
            if e.value is ...:
                if len(e.path) == 1:
                    msg_start = cursor
                continue
            w = e.type._int_size
            data = as_list(e.value.to_bytes())
            if cursor + w > n:
                structure_ok = False
                break
            for i in range(w):
                conds.append(data[i] == b[cursor + i])
            cursor += w
            after[str(e.path)] = cursor
            continue
        err = e.error
        if isinstance(err, (SizeConstraintExceededError, SizeConstraintSubceededError)):
            snap = r.snaps.get(events.index(e))
            cpath = snap["constraint_path"]
            start = msg_start if cpath in SIZE_ROOTS else after.get(cpath)
            if start is None:
                structure_ok = False
                break
            end = start + snap["size_max"]
            # resume exactly at the declared end (never backwards; beyond the input only 'depleted' may follow)
            if end > cursor:
                cursor = end
            if cursor > n:
                cursor = n
                depleted_expected = True
        elif isinstance(err, InputStreamSuperfluousBytesError):
            rem = as_list(err.bytes_remaining)
            conds.append(len(rem) == n - cursor)
            if len(rem) == n - cursor:
                for i in range(len(rem)):
                    conds.append(rem[i] == b[cursor + i])
            cursor = n
        elif isinstance(err, InputStreamBytesDepletedError):
            depleted = True
        # anticipated and value warnings do not move the cursor
    checks.append(("tiling-structure", structure_ok))
    if structure_ok:
        checks.append(("tiling-fields-are-the-next-input-bytes", all(conds)))
        if r.err is None and not depleted:
            checks.append(("tiling-reaches-the-end-of-the-input", cursor == n))
    # (3) value-only problems: lenient field-by-field interpretation
    # whether "the only problems are out-of-range values" is decided by the reference interpretation (lenient
    # about values, strict about structure), not by the warnings the decoder chose to emit
    if cfg["type"].startswith("harness.synth:"):
        from .synth import layout as _syn_layout

        ref = RefDec(_syn_layout(), b, lenient_values=True)
    else:
        ref = RefDec(pinned_layout(), b, lenient_values=True)
    rev, out = ref.run(cfg["type"], cc=cc, enc=enc)
    if out[0] == "OK" and ref.value_warnings and r.err is None:
        checks.append(("value-only-input-yields-only-value-warnings", all(k == "Value" for k in kinds)))
        if all(k == "Value" for k in kinds):
            note("value-only")
            real = [e for e in events if isinstance(e, MarshalEvent)]
            checks.append(("value-only-event-count", len(real) == len(rev)))
            if len(real) == len(rev):
                st, va = event_conds(real, rev)
                checks.append(("value-only-events-equal-lenient-reference", st and va))
            # one warning directly after each offending event
            idx_of = {}
            k = -1
            okpos = True
            for e in events:
                if isinstance(e, MarshalEvent):
                    k += 1
                else:
                    idx_of.setdefault(k, 0)
                    idx_of[k] += 1
            want = sorted(i for i, p, t, v in ref.value_warnings)
            checks.append(("one-warning-directly-after-each-offending-event", sorted(idx_of) == want and all(c == 1 for c in idx_of.values())))
    return checks


def few_constrained(tr, k=3):
    """byte positions of the first k leaves whose type can be out of range (multiple value faults at once;
    with every leaf symbolic the value warnings of a long message multiply into thousands of slow paths)"""
    xs = [x for x in tr if x[4] == "leaf" and not sp.is_full_range(x[1])][:k]
    return sp.free_positions(xs)


def partitions(tier, seed):
    from .c13 import size_variants

    quick = tier == "quick"
    P = "harness.c08:warn_mode"
    parts = []
    T = sp.L()["types"]
    region_types = [k for k in sp.struct_keys() if T[k]["kind"] == "tpm2b" or any(
        isinstance(f[1], str) and T[f[1]]["kind"] == "tpm2b" for f in T[k].get("fields", []))]
    if quick:
        region_types = sp.rotate(region_types, seed, 24)
    for k in region_types:
        m = sp.min_size(k)
        lo, hi = (m, min(m + 3, 8)) if quick else (0, min(m + 4, 12))
        for n in range(lo, hi + 1):
            parts.append(sp.S(P, "C08", k, n, budget=30 if quick else 150))
    # structure types with a union member: the selector bytes are symbolic too (a selector that is invalid for
    # its own interface type may still select a member of the shared union)
    for k in sp.struct_keys():
        if T[k].get("selectors") and k not in region_types:
            m = sp.min_size(k)
            for n in range(m, min(m + 2, 9) if quick else min(m + 4, 12)):
                parts.append(sp.S(P, "C08", k, n, budget=30 if quick else 120))
    for k in sp.prim_keys():
        parts.append(sp.S(P, "C08", k, T[k]["width"], budget=25))
    from . import synth

    for k in synth.keys():
        for n in range(0, 9 if quick else 12):
            parts.append(sp.S(P, "C08", k, n, budget=40 if quick else 200))
    G = sp.gen()
    ccs = sp.cc_list()
    if quick:
        core = [c for c in ccs if sp.cc_name(c) in CORE]
        ccs = sorted(set(sp.rotate(ccs, seed + 12, 5) + core))
    for cc in ccs:
        for label, data in G.commands(cc, minimal=quick):
            tr = sp.trace_of(sp.cmd_key(), data)
            lab = "%s-%s" % (sp.cc_name(cc), label)
            parts.extend(size_variants(P, "C08", sp.cmd_key(), lab, data, tr))
            parts.append(sp.M(P, "C08", sp.cmd_key(), lab + "/values", data, few_constrained(tr), budget=40))
            # the tag (it decides whether a session area follows) over all 65536 values
            parts.append(sp.M(P, "C08", sp.cmd_key(), lab + "/tag", data, [0, 1], budget=45))
        for label, enc, data in G.responses(cc, minimal=quick):
            tr = sp.trace_of(sp.rsp_key(), data, cc=cc, enc=enc)
            lab = "%s-%s" % (sp.cc_name(cc), label)
            cfg = {"cc": cc, "enc": enc}
            parts.extend(size_variants(P, "C08", sp.rsp_key(), lab, data, tr, cfg=cfg))
            parts.append(sp.M(P, "C08", sp.rsp_key(), lab + "/values", data, few_constrained(tr), budget=40, cfg=cfg))
            parts.append(sp.M(P, "C08", sp.rsp_key(), lab + "/tag", data, [0, 1], budget=45, cfg=cfg))
    return parts
