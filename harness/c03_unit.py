"""U: one step of the size-constraint algebra (common/constraints.py) from an arbitrary pre-state."""
from engine.native import assume, note
from tpmstream.common.constraints import SizeConstraint, SizeConstraintList
from tpmstream.common.error import (
    AnticipatedSizeConstraintExceededError,
    SizeConstraintExceededError,
    SizeConstraintSubceededError,
)
from tpmstream.common.event import WarningEvent
from tpmstream.common.path import Path, PathNode


MAX_SKIP = 4


def _mk(k, a, m):
    """k nested constraints, pre-state satisfying the representation invariant I:
    0 <= already_i <= max_i  and  remaining of inner <= remaining of outer (what anticipation establishes)"""
    cs = []
    for i in range(k):
        c = SizeConstraint()
        c.constraint_path = Path(PathNode("")) / PathNode("c%d" % i)
        c.size_max = m[i]
        c.size_already = a[i]
        cs.append(c)
    inv = [0 <= a[i] for i in range(k)] + [a[i] <= m[i] for i in range(k)]
    inv += [m[i + 1] - a[i + 1] <= m[i] - a[i] for i in range(k - 1)]
    assume(all(inv))
    return cs


def _drive(gen):
    """run a constraint coroutine to its end: -> (number of byte requests, warnings, raised error or None)"""
    asked, warns, err = 0, [], None
    try:
        x = next(gen)
        while True:
            if x is None:
                asked += 1
                x = gen.send(0)
            else:
                warns.append(x)
                x = gen.send(None)
    except StopIteration:
        pass
    except (SizeConstraintExceededError, SizeConstraintSubceededError, AnticipatedSizeConstraintExceededError) as e:
        err = e
    return asked, warns, err


def bytes_parsed_step(cfg, a0, m0, a1, m1, a2, m2, size):
    k = cfg["k"]
    a, m = [a0, a1, a2][:k], [m0, m1, m2][:k]
    cs = _mk(k, a, m)
    lst = SizeConstraintList(cs)
    # bound: a crossed region has at most MAX_SKIP bytes left (skipping is one loop iteration per byte)
    assume(all([any([a[i] + size <= m[i], m[i] - a[i] <= MAX_SKIP]) for i in range(k)]))
    path = Path(PathNode("")) / PathNode("violator")
    asked, warns, err = _drive(lst.bytes_parsed(path, size))
    crossed = [i for i in range(k) if a[i] + size > m[i]]
    if not crossed:
        note("fits")
        return [("no-error-when-it-fits", err is None and asked == 0 and not warns),
                ("all-regions-count", all([cs[i].size_already == a[i] + size for i in range(k)])),
                ("invariant-preserved", all([cs[i].size_already <= cs[i].size_max for i in range(k)]))]
    note("crosses")
    i = crossed[0]  # outermost crossed region
    checks = [("exceeded-raised", isinstance(err, SizeConstraintExceededError))]
    if not isinstance(err, SizeConstraintExceededError):
        return checks
    checks.append(("names-a-crossed-region", any(err.constraint is cs[j] for j in crossed)))
    j = next(j for j in range(k) if err.constraint is cs[j]) if any(err.constraint is cs[j] for j in range(k)) else None
    if j is None:
        return checks
    checks.append(("exceeded-attrs", all([err.exceeded_by == a[j] + size - m[j], err.violator_path == path,
                                          err.constraint.size_max == m[j], err.constraint.size_already == a[j]])))
    checks.append(("skips-to-region-end", asked == m[j] - a[j]))
    return checks


def anticipate_step(cfg, a0, m0, a1, m1, a2, m2, size):
    k = cfg["k"]
    a, m = [a0, a1, a2][:k], [m0, m1, m2][:k]
    cs = _mk(k, a, m)
    lst = SizeConstraintList(cs)
    new = SizeConstraint()
    path = Path(PathNode("")) / PathNode("size")
    strict = cfg["strict"]
    asked, warns, err = _drive(new.set_constraint(path, size, lst, abort_on_error=strict))
    crossed = [i for i in range(k) if a[i] + size > m[i]]
    checks = [("constraint-set", new.size_max == size and new.constraint_path == path and new.size_already == 0),
              ("pre-state-untouched", all([cs[i].size_already == a[i] for i in range(k)])),
              ("no-bytes-consumed", asked == 0)]
    if not crossed:
        note("fits")
        checks.append(("no-anticipation-when-it-fits", err is None and not warns))
        return checks
    note("anticipated")
    e = err if strict else (warns[0].error if len(warns) == 1 and isinstance(warns[0], WarningEvent) else None)
    checks.append(("anticipated-reported", isinstance(e, AnticipatedSizeConstraintExceededError) and (strict or err is None)))
    if not isinstance(e, AnticipatedSizeConstraintExceededError):
        return checks
    js = [j for j in crossed if e.constraint is cs[j]]
    checks.append(("names-a-crossed-region", len(js) == 1))
    if len(js) == 1:
        j = js[0]
        checks.append(("anticipated-attrs", all([e.exceeded_by == a[j] + size - m[j], e.violator_value == size,
                                                 e.violator_path == path])))
    return checks


def assert_done_step(cfg, a0, m0, a1, m1, a2, m2, size):
    k = cfg["k"]
    a, m = [a0, a1, a2][:k], [m0, m1, m2][:k]
    cs = _mk(k, a, m)
    lst = SizeConstraintList(cs)
    strict = cfg["strict"]
    inner = cs[-1]
    assume(m[-1] - a[-1] <= MAX_SKIP)
    asked, warns, err = _drive(inner.assert_done(all_size_constraints=lst, abort_on_error=strict))
    if a[-1] == m[-1]:
        note("exact")
        return [("exact-region-closes-silently", err is None and not warns and asked == 0 and inner.is_obsolete)]
    note("short")
    if strict:
        return [("subceeded-raised", isinstance(err, SizeConstraintSubceededError) and err.constraint is inner
                 and asked == 0),
                ("subceeded-attrs", all([inner.size_max == m[-1], inner.size_already == a[-1]]))]
    return [("subceeded-warned", err is None and len(warns) == 1 and isinstance(warns[0].error, SizeConstraintSubceededError)
             and warns[0].error.constraint is inner),
            ("padding-consumed", asked == m[-1] - a[-1])]


def partitions(tier, seed):
    B = 2 ** 32 + 1
    sym = []
    for i in range(3):
        sym += [["a%d" % i, "int", 0, B], ["m%d" % i, "int", 0, B]]
    sym.append(["size", "int", 0, B])
    parts = []
    for k in (1, 2, 3):
        parts.append({"id": "C03/U/bytes_parsed/k%d" % k, "prop": "harness.c03_unit:bytes_parsed_step",
                      "cfg": {"k": k}, "sym": sym, "budget_s": 60})
        for strict in (True, False):
            parts.append({"id": "C03/U/set_constraint/k%d/strict=%s" % (k, strict), "prop": "harness.c03_unit:anticipate_step",
                          "cfg": {"k": k, "strict": strict}, "sym": sym, "budget_s": 60})
            parts.append({"id": "C03/U/assert_done/k%d/strict=%s" % (k, strict), "prop": "harness.c03_unit:assert_done_step",
                          "cfg": {"k": k, "strict": strict}, "sym": sym, "budget_s": 60})
    return parts
