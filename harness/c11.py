"""C11 - events and Python objects convert into each other without loss."""
from . import spaces as sp
from .c01 import shape_parts

PROP = "harness.props:obj_events"
META = {
    "rule": "M(shape) with interval-valued leaves symbolic (all shapes incl. empty structured TPM2B, payload-less "
            "union arms, no session area, failed responses, encrypted parameters); S(T,N) for structure types.",
    "bounds": {
        "quick": "all structure shapes of a seed-rotated quarter of the types; shapes of 16 seed-rotated command "
                 "codes + core; S(T, m..m+2) for a seed-rotated quarter of the structure types",
        "thorough": "every generated shape; S(T, 0..min(m+4,12)) for all structure types",
    },
    "outside": "shapes the each-choice generator does not produce; the Canonical facade on symbolic bytes "
               "(it insists on a real bytes object, so it is run on the concrete shapes only)",
    "wall_budget_s": {"quick": 270, "thorough": 840},
}
CORE = ("Startup", "GetRandom", "CreatePrimary", "GetCapability", "NV_Read", "PCR_Read", "StartAuthSession", "Commit")


def partitions(tier, seed):
    quick = tier == "quick"
    parts = []
    G = sp.gen()
    sk = sp.struct_keys() + sp.area_keys()
    if quick:
        sk = sp.rotate(sk, seed, len(sk) // 4)
    for k in sk:
        for i, data in enumerate(G.variants(k)):
            parts.extend(shape_parts("C11", PROP, k, "v%d" % i, data, budget=20))
    st = sp.struct_keys()
    if quick:
        st = sp.rotate(st, seed + 1, len(st) // 4)
    for k in st:
        m = sp.min_size(k)
        lo, hi = (m, min(m + 2, 8)) if quick else (0, min(m + 4, 12))
        for n in range(lo, hi + 1):
            parts.append(sp.S(PROP, "C11", k, n, budget=25 if quick else 120))
    ccs = sp.cc_list()
    if quick:
        core = [c for c in ccs if sp.cc_name(c) in CORE]
        ccs = sorted(set(sp.rotate(ccs, seed + 8, 16) + core))
    for cc in ccs:
        for label, data in G.commands(cc):
            parts.extend(shape_parts("C11", PROP, sp.cmd_key(), "%s-%s" % (sp.cc_name(cc), label), data))
            parts.append(sp.M("harness.props:canonical_facade", "C11", sp.cmd_key(), "%s-%s/canonical" % (sp.cc_name(cc), label), data, [], budget=20))
        for label, enc, data in G.responses(cc):
            parts.extend(shape_parts("C11", PROP, sp.rsp_key(), "%s-%s" % (sp.cc_name(cc), label), data, cc=cc, enc=enc))
            parts.append(sp.M("harness.props:canonical_facade", "C11", sp.rsp_key(), "%s-%s/canonical" % (sp.cc_name(cc), label), data, [], budget=20, cfg={"cc": cc, "enc": enc}))
    return parts
