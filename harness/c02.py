from engine.native import note, assume
from .common import decode, get_type
from tpmstream.io.binary import Binary
from tpmstream.common.event import MarshalEvent


def roundtrip(cfg, b):
    T = get_type(cfg["type"])
    events, err, obj = decode(T, b, strict=True)
    if err is not None:
        note("rejected:" + type(err).__name__)
        return []
    note("accepted")
    chunks = list(Binary.unmarshal(events))
    out = b"".join(chunks)
    checks = [("reencode-length", len(out) == len(b))]
    checks.append(("reencode-bytes", out == b))
    off = 0
    conds = []
    for e, c in zip(events, chunks):
        if e.value is ...:
            conds.append(len(c) == 0)
        else:
            w = e.type._int_size
            conds.append(len(c) == w)
            conds.append(c == b[off:off + w])
            off += w
    checks.append(("chunk-slices", all(conds)))
    return checks
