"""C02 - re-encoding the events of a decodable input reproduces the input bytes."""
from . import spaces as sp

PROP = "harness.props:roundtrip"
META = {
    "rule": "S(T,N) all bytes symbolic; M(shape) free leaves symbolic (strict), and warn mode with every leaf "
            "unconstrained (value warnings only).",
    "bounds": {
        "quick": "primitive types at their width; structure types (seed-rotated third) lengths m(T)..min(m(T)+2,9); "
                 "command/response shapes of 9 seed-rotated command codes with all leaves symbolic, strict and warn; their M/size variants; two-pair streams incl. a bad-tag answer",
        "thorough": "all structure types lengths 0..min(m(T)+4,14); shapes of all 117 command codes",
    },
    "outside": "inputs that are neither within N nor an instance of an explored shape",
    "wall_budget_s": {"quick": 270, "thorough": 840},
}


def partitions(tier, seed):
    quick = tier == "quick"
    parts = []
    for k in sp.prim_keys():
        w = sp.L()["types"][k]["width"]
        parts.append(sp.S(PROP, "C02", k, w, budget=20))
        parts.append(sp.S(PROP, "C02", k, w, budget=20, cfg={"warn": True}))
    sk = sp.struct_keys()
    if quick:
        sk = sp.rotate(sk, seed, len(sk) // 3)
    for k in sk:
        m = sp.min_size(k)
        lo, hi = (m, min(m + 2, 9)) if quick else (0, min(m + 4, 14))
        for n in range(lo, hi + 1):
            parts.append(sp.S(PROP, "C02", k, n, budget=25 if quick else 120))
    G = sp.gen()
    ccs = sp.cc_list()
    if quick:
        ccs = sp.rotate(ccs, seed + 1, 9)
    for cc in ccs:
        for label, data in G.commands(cc, minimal=quick):
            tr = sp.trace_of(sp.cmd_key(), data)
            free = sp.free_positions(tr)
            for warn in (False, True):
                parts.append(sp.M(PROP, "C02", sp.cmd_key(), "%s-%s%s" % (sp.cc_name(cc), label, "-warn" if warn else ""),
                                  data, free, budget=40, cfg={"warn": warn}))
        for label, enc, data in G.responses(cc, minimal=quick):
            tr = sp.trace_of(sp.rsp_key(), data, cc=cc, enc=enc)
            free = sp.free_positions(tr)
            for warn in (False, True):
                parts.append(sp.M(PROP, "C02", sp.rsp_key(), "%s-%s%s" % (sp.cc_name(cc), label, "-warn" if warn else ""),
                                  data, free, budget=40, cfg={"cc": cc, "enc": enc, "warn": warn}))
    # streams: one and two pairs (a bad-tag answer, which starts with a 0x00 byte, in the middle)
    chosen = list(ccs)
    for c1, c2 in list(zip(chosen, chosen[1:] + chosen[:1]))[: (8 if quick else len(chosen))]:
        cm1 = G.commands(c1, minimal=True)[0][1]
        r1 = {l: d for l, e, d in G.responses(c1, minimal=False)}
        cm2 = G.commands(c2, minimal=True)[-1][1]
        r2 = [r for r in G.responses(c2, minimal=True) if r[0] == "sess1"][0][2]
        for label, first in (("ok", r1["nosess"]), ("badtag", r1["fail-badtag"])):
            stream = cm1 + first + cm2 + r2
            parts.append(sp.M(PROP, "C02", sp.stream_key(), "%s+%s-stream-%s" % (sp.cc_name(c1), sp.cc_name(c2), label), stream, [], budget=30))
            parts.append(sp.M(PROP, "C02", sp.stream_key(), "%s+%s-stream-%s-warn" % (sp.cc_name(c1), sp.cc_name(c2), label), stream, [], budget=30, cfg={"warn": True}))
    # size-perturbed variants: whatever strict decoding (or warn mode with value warnings only) accepts among
    # them must still re-encode to the input
    from .c13 import size_variants

    for cc in ccs:
        for label, data in G.commands(cc, minimal=True):
            tr = sp.trace_of(sp.cmd_key(), data)
            for warn in (False, True):
                parts.extend(size_variants(PROP, "C02", sp.cmd_key(), "%s-%s%s" % (sp.cc_name(cc), label, "-warn" if warn else ""), data, tr,
                                           cfg={"warn": warn}, budget=30))
        for label, enc, data in G.responses(cc, minimal=True):
            tr = sp.trace_of(sp.rsp_key(), data, cc=cc, enc=enc)
            parts.extend(size_variants(PROP, "C02", sp.rsp_key(), "%s-%s" % (sp.cc_name(cc), label), data, tr,
                                       cfg={"cc": cc, "enc": enc}, budget=30))
    return parts
