"""C14 - the printers show every event and every byte exactly once, in order (reduced scope, DESIGN 9)."""
import importlib
import re

from engine.native import assume, note
from tpmstream.common.event import MarshalEvent, WarningEvent
from tpmstream.common.util import is_list
from tpmstream.io.binary import Binary

from . import spaces as sp
from .common import decode_full, get_type
from .props import as_list, assume_leaves, kind_of

META = {
    "rule": "Event streams of explored shapes (well-formed, one symbolic size field, all leaves symbolic; both modes) "
            "through the real Pretty.unmarshal and Events.unmarshal with colours switched off; rows are matched "
            "against the row sequence the property prescribes; hex digits and value texts stay symbolic.",
    "bounds": {"quick": "minimal shapes of 6 seed-rotated command codes + GetRandom, PCR_Read, StartAuthSession, strict and warn", "thorough": "all command codes; structure shapes"},
    "outside": "event streams that are not the decode of an explored shape; the exact column widths (taken from the "
               "printer's own row template); text of warning rows",
    "assumptions": ["stub: Fore/Style of both printer modules replaced by colourless objects (colour codes aside)"],
    "wall_budget_s": {"quick": 260, "thorough": 840},
}
CORE = ("GetRandom", "PCR_Read", "StartAuthSession")
CORE_THOROUGH = ("CreatePrimary", "GetCapability", "Load")


class _NoColor:
    def __getattr__(self, _n):
        return ""


def _modules():
    pm = importlib.import_module("tpmstream.io.pretty.unmarshal")
    em = importlib.import_module("tpmstream.io.events.unmarshal")
    for m in (pm, em):
        m.Fore, m.Style = _NoColor(), _NoColor()
    return pm, em


PREFIX = re.compile(r"^(\S*)\s+((?:\|   )*)\.(\S*)\s+$")
FILTER = bytes(c if 32 <= c < 127 else 46 for c in range(256))


def hexdigits(byts):
    out = []
    for b in byts:
        for d in (b // 16, b % 16):
            out.append(d)
    return out


def row_matches(pm, row, tpm_type, path, byts, value_text):
    """one row against (type, path, field bytes, value text); the column offsets come from the printer's own
    template for a concrete stand-in of the same widths, the prefix columns are parsed independently"""
    w = len(byts)
    tmpl = pm.format(tpm_type, path, b"\xaa" * w if w else None, "")
    k = tmpl.index("aa" * w) if w else None
    if w == 0:
        # no hex column: the row is the template plus the value text
        base = pm.format(tpm_type, path, None, ...)
        head = base.rstrip(" ")
        conds = [len(row) >= len(head), row[:len(head)] == head]
        m = PREFIX.match(head + " ")
        conds.append(m is not None and m.group(1) == pm.get_type_name(tpm_type)
                     and len(m.group(2)) == 4 * (len(path) - 1) and m.group(3) == str(path[-1]))
        if value_text is not None:
            rest = row[len(base):]
            conds.append(row[:len(base)] == base and rest == value_text)
        return conds
    prefix = tmpl[:k]
    conds = [len(row) >= k + 2 * w, row[:k] == prefix]
    m = PREFIX.match(prefix)
    conds.append(m is not None and m.group(1) == pm.get_type_name(tpm_type)
                 and len(m.group(2)) == 4 * (len(path) - 1) and m.group(3) == str(path[-1]))
    if len(row) < k + 2 * w:
        return conds
    hx = row[k:k + 2 * w]
    for ch, d in zip(hx, hexdigits(byts)):
        c = ord(ch)
        conds.append(any([all([d < 10, c == 48 + d]), all([d >= 10, c == 87 + d])]))
    tail_t = tmpl[k + 2 * w:]  # padding + " " (value column empty in the template)
    rest = row[k + 2 * w:]
    conds.append(rest[:len(tail_t)] == tail_t)
    if value_text is not None:
        conds.append(rest[len(tail_t):] == value_text)
    return conds


def expected_rows(events):
    """the row sequence the property prescribes: ('warning',) | ('field', event) | ('buffer', parent, [bytes...])
    | ('optional-list-parent', event) | ('attrs', event)"""
    out = []
    i, n = 0, len(events)
    while i < n:
        e = events[i]
        if not isinstance(e, MarshalEvent):
            out.append(("warning", e))
            i += 1
            continue
        if is_list(e.type) and e.value is ...:
            elem = e.type.__args__[0]
            if elem.__name__ == "BYTE":
                j = i + 1
                byts, warns = [], []
                while j < n:
                    c = events[j]
                    if not isinstance(c, MarshalEvent):
                        warns.append(("warning", c))
                        j += 1
                        continue
                    if c.path[:-1] == e.path[:-1] and c.path[-1].name == e.path[-1].name and c.path[-1].index is not None:
                        byts.append(c)
                        j += 1
                        continue
                    break
                out.extend(warns)
                out.append(("buffer", e, byts))
                i = j
                continue
            out.append(("optional-list-parent", e))
            # direct elements of the list: no attribute rows
            j = i + 1
            while j < n:
                c = events[j]
                if not isinstance(c, MarshalEvent):
                    out.append(("warning", c))
                    j += 1
                    continue
                if c.path[:-1] == e.path[:-1] and c.path[-1].name == e.path[-1].name and c.path[-1].index is not None:
                    out.append(("field", c))
                    j += 1
                    continue
                break
            i = j
            continue
        out.append(("field", e))
        if e.value is not ... and hasattr(e.value, "attributes"):
            out.append(("attrs", e))
        i += 1
    return out


def printers(cfg, b):
    pm, em = _modules()
    T = get_type(cfg["type"])
    cc, enc = cfg.get("cc"), cfg.get("enc")
    assume_leaves(cfg, b)
    r = decode_full(T, b, not cfg.get("warn"), cc, enc)
    if r.crash is not None:
        assume(False)
    events = list(r.events)
    note("events:%s" % kind_of(r.err))
    rows = list(pm.unmarshal(iter(events)))  # any exception is a failure (exc:... tag)
    checks = []
    exp = expected_rows(events)
    conds = []
    ri = 0
    ok_structure = True
    shown = []
    pending = []  # rows of non-byte list parents: allowed but not required, and the printer may emit one
    # only after the warnings that followed the (empty) list

    def skip_pending():
        nonlocal ri
        moved = True
        while moved and ri < len(rows):
            moved = False
            for head in list(pending):
                if len(rows[ri]) >= len(head) and rows[ri][:len(head)] == head and rows[ri][len(head):].strip(" ") == "":
                    pending.remove(head)
                    ri += 1
                    moved = True
                    break

    for item in exp:
        kind = item[0]
        if kind != "warning":
            skip_pending()
        if kind == "attrs":
            e = item[1]
            attrs = e.value.attributes()
            for a in attrs:
                if ri >= len(rows):
                    ok_structure = False
                    break
                ri += 1  # content of bit rows is C17 / C18's subject
            continue
        if kind == "optional-list-parent":
            e = item[1]
            pending.append(pm.format(e.type, e.path, None, ...).rstrip(" "))
            skip_pending()
            continue
        if ri >= len(rows):
            ok_structure = False
            break
        row = rows[ri]
        ri += 1
        if kind == "warning":
            conds.append(row.startswith("Warning: "))
            continue
        if kind == "field":
            e = item[1]
            if e.value is ...:
                conds.extend(row_matches(pm, row, e.type, e.path, [], None))
            else:
                byts = as_list(e.value.to_bytes())
                shown.extend(byts)
                conds.extend(row_matches(pm, row, e.type, e.path, byts, format(e.value)))
            continue
        if kind == "buffer":
            e, elems = item[1], item[2]
            byts = []
            for c in elems:
                byts.extend(as_list(c.value.to_bytes()))
            shown.extend(byts)
            text = bytes(byts).translate(FILTER).decode() if byts else ""
            conds.extend(row_matches(pm, row, e.type, e.path, byts, text if byts else ""))
            continue
    skip_pending()
    checks.append(("pretty-rows-follow-the-event-sequence", ok_structure and ri == len(rows)))
    checks.append(("pretty-rows-content", all(conds)))
    # hex column over all rows == bytes of the decoded fields
    field_bytes = []
    for ch in Binary.unmarshal(events):
        field_bytes.extend(as_list(ch))
    checks.append(("hex-columns-cover-the-decoded-field-bytes", len(shown) == len(field_bytes)
                   and all([x == y for x, y in zip(shown, field_bytes)])))
    if r.err is None and not any(isinstance(e, WarningEvent) for e in events):
        checks.append(("well-formed-input-fully-shown", len(shown) == len(b) and all([x == y for x, y in zip(shown, as_list(b))])))
    return checks


def shape_parts(pid, prop, key, label, data, cc=None, enc=None, budget=60):
    """byte-buffer elements symbolic (their hex and text columns stay symbolic); integers, handles and
    attribute words concrete here: their value texts fork once per digit count in the formatting models, which
    multiplies over the leaves of a message (they are symbolic one at a time in the size / values variants)"""
    tr = sp.trace_of(key, data, cc=cc, enc=enc)
    free = sp.free_positions([x for x in tr if x[4] == "leaf" and sp.L()["types"][x[1]]["name"] == "BYTE"])
    cfg = {}
    if cc is not None:
        cfg["cc"] = cc
    if enc is not None:
        cfg["enc"] = enc
    return [sp.M(prop, pid, key, label, data, free, budget=budget, cfg=cfg)]


def events_printer(cfg, b):
    """Events.unmarshal: one row per event, in order: <type name> <path> = <value text | ...>; warnings one row"""
    pm, em = _modules()
    T = get_type(cfg["type"])
    cc, enc = cfg.get("cc"), cfg.get("enc")
    r = decode_full(T, b, not cfg.get("warn"), cc, enc)
    if r.crash is not None:
        assume(False)
    events = list(r.events)
    note("events:%s" % kind_of(r.err))
    rows = list(em.unmarshal(iter(events)))
    checks = [("events-printer-one-row-per-event", len(rows) == len(events))]
    if len(rows) != len(events):
        return checks
    conds = []
    for e, row in zip(events, rows):
        if not isinstance(e, MarshalEvent):
            conds.append(row.startswith("Warning: "))
            continue
        tn = pm.get_type_name(e.type)
        head = tn + " " * max(0, 50 - len(tn)) + str(e.path) + " = "
        conds.append(row[:len(head)] == head)
        conds.append(row[len(head):] == ("..." if e.value is ... else format(e.value)))
    checks.append(("events-printer-rows", all(conds)))
    return checks


def partitions(tier, seed):
    quick = tier == "quick"
    from .c13 import size_variants

    G = sp.gen()
    ccs = sp.cc_list()
    if quick:
        core = [c for c in ccs if sp.cc_name(c) in CORE]
        ccs = sorted(set(sp.rotate([c for c in ccs if sp.cc_name(c) not in CORE_THOROUGH], seed + 11, 6) + core))
    parts = []
    P = "harness.c14:printers"
    E = "harness.c14:events_printer"
    # every primitive type on its own, every value of its width (signed types, enumerations, handles: the hex
    # column must be the field's bytes and the value column its text form for all of them)
    for k in sp.prim_keys():
        d = sp.L()["types"][k]
        if d.get("bits") or d.get("rc"):
            continue  # their bit rows multiply the paths; covered in shapes below and by C17 / C18
        if quick and d["width"] > 2 and not d["signed"]:
            continue  # wide unsigned types: thorough tier (their decimal / hex value texts are solver-heavy)
        parts.append(sp.S(P, "C14", k, d["width"], budget=90, cfg={"warn": True}))
    for cc in ccs:
        for label, data in G.commands(cc, minimal=quick):
            lab = "%s-%s" % (sp.cc_name(cc), label)
            for warn in (False, True):
                for p in shape_parts("C14", P, sp.cmd_key(), lab + ("-warn" if warn else ""), data, budget=60):
                    p["cfg"]["warn"] = warn
                    parts.append(p)
            tr = sp.trace_of(sp.cmd_key(), data)
            for p in size_variants(P, "C14", sp.cmd_key(), lab + "-warn", data, tr, cfg={"warn": True}, budget=60)[:2]:
                parts.append(p)
            fb = sp.free_positions([x for x in tr if x[4] == "leaf" and sp.L()["types"][x[1]]["name"] == "BYTE"])[:2]
            for warn in (False, True):
                parts.append(sp.M(E, "C14", sp.cmd_key(), lab + "/events-printer" + ("-warn" if warn else ""), data, fb, budget=40, cfg={"warn": warn}))
            for p in size_variants(E, "C14", sp.cmd_key(), lab + "/events-printer-warn", data, tr, cfg={"warn": True}, budget=40)[:1]:
                parts.append(p)
            # one leaf at a time over its whole width, warn mode (value warnings, symbolic value texts)
            cand = [x for x in tr if x[4] == "leaf" and sp.L()["types"][x[1]]["name"] != "BYTE"]
            cand.sort(key=lambda x: not sp.L()["types"][x[1]]["signed"])  # signed fields first
            for x in cand[:2]:
                parts.append(sp.M(P, "C14", sp.cmd_key(), "%s-warn/value@%s" % (lab, x[0]), data, list(range(x[2], x[2] + x[3])), budget=60, cfg={"warn": True}))
        for label, enc, data in G.responses(cc, minimal=quick):
            lab = "%s-%s" % (sp.cc_name(cc), label)
            for warn in (False, True):
                for p in shape_parts("C14", P, sp.rsp_key(), lab + ("-warn" if warn else ""), data, cc=cc, enc=enc, budget=60):
                    p["cfg"]["warn"] = warn
                    parts.append(p)
            tr = sp.trace_of(sp.rsp_key(), data, cc=cc, enc=enc)
            for p in size_variants(P, "C14", sp.rsp_key(), lab + "-warn", data, tr, cfg={"cc": cc, "enc": enc, "warn": True}, budget=60)[:2]:
                parts.append(p)
    if quick:
        for k in sp.struct_keys():
            if sp.short(k).startswith("TPML_"):
                for i, data in enumerate(G.variants(k)):
                    for warn in ((False, True) if sp.short(k) == "TPML_CCA" else (False,)):
                        for p_ in shape_parts("C14", P, k, "v%d%s" % (i, "-warn" if warn else ""), data, budget=40):
                            p_["cfg"]["warn"] = warn
                            parts.append(p_)
    if not quick:
        for k in sp.struct_keys():
            for i, data in enumerate(G.variants(k)):
                parts.extend(shape_parts("C14", P, k, "v%d" % i, data, budget=40))
                tr = sp.trace_of(k, data)
                for x in [x for x in tr if x[4] == "leaf" and sp.L()["types"][x[1]]["name"] != "BYTE"][:2]:
                    parts.append(sp.M(P, "C14", k, "v%d-warn/value@%s" % (i, x[0]), data, list(range(x[2], x[2] + x[3])), budget=40, cfg={"warn": True}))
    return parts
