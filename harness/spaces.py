"""Input spaces (DESIGN.md section 4): partition builders shared by the property modules.

S(T, N)      every byte string of each length n <= N decoded as T (all bytes symbolic)
M(shape)     concrete well-formed shape, free leaves symbolic
M/size, M/value, M/cut variants
All type lists, shapes and offsets are regenerated from /repo's current tree at run time.
"""
import random

from oracle.refdec import RefDec
from oracle.shapes import Gen, live_layout

_G = [None]


def gen():
    if _G[0] is None:
        _G[0] = Gen(live_layout())
    return _G[0]


def L():
    return live_layout()


def prim_keys():
    return sorted(k for k, d in L()["types"].items() if d["kind"] == "prim")


def struct_keys():
    """stand-alone decodable non-primitive structure types (no command/response areas)"""
    return sorted(k for k, d in L()["types"].items()
                  if d["kind"] in ("tpm2b", "struct") and ".spec.structures." in k)


def area_keys():
    return sorted(k for k, d in L()["types"].items()
                  if d["kind"] == "struct" and ".spec.commands." in k)


def min_size(key):
    return min(len(v) for v in gen().variants(key))


def short(key):
    return key.split(":")[-1]


def trace_of(key, data, cc=None, enc=None):
    """leaf map of a well-formed encoding: [(path, type key, offset, width, role)] via the *live* layout"""
    r = RefDec(L(), data)
    ev, out = r.run(key, cc=cc, enc=enc)
    if out[0] != "OK":
        raise ValueError("shape is not well-formed under the live layout: %s %r" % (short(key), out))
    return r.trace


def free_positions(trace, roles=("leaf",)):
    pos = []
    for path, t, off, w, role in trace:
        if role in roles:
            pos.extend(range(off, off + w))
    return pos


def is_full_range(t):
    d = L()["types"][t]
    return (len(d["valid"]) == 1 and d["valid"][0]["k"] == "range"
            and d["valid"][0]["hi"] - d["valid"][0]["lo"] == 2 ** (8 * d["width"]))


def free_unconstrained(trace):
    """byte positions of leaves whose type admits every value of its width (buffers, plain integers, attribute words)"""
    return free_positions([x for x in trace if x[4] == "leaf" and is_full_range(x[1])])


def S(prop, pid, key, n, budget=40, cfg=None, ppt=20):
    c = {"type": key}
    c.update(cfg or {})
    return {"id": "%s/S/%s/len%d%s" % (pid, short(key), n, _cfgtag(cfg)), "prop": prop, "cfg": c,
            "sym": [["b", "bytes", n]], "budget_s": budget, "path_timeout_s": ppt}


def _cfgtag(cfg):
    if not cfg:
        return ""
    return "/" + ",".join("%s=%s" % (k, v) for k, v in sorted(cfg.items()) if k not in ("type", "only"))


def M(prop, pid, key, label, data, free, budget=40, cfg=None, ppt=30):
    c = {"type": key}
    c.update(cfg or {})
    return {"id": "%s/M/%s/%s" % (pid, short(key), label), "prop": prop, "cfg": c,
            "sym": [["b", "template", data.hex(), sorted(free)]], "budget_s": budget, "path_timeout_s": ppt}


def rotate(items, seed, k):
    """seed-rotated sample of k items (deterministic for a seed)"""
    items = list(items)
    if k >= len(items):
        return items
    rnd = random.Random(seed)
    rnd.shuffle(items)
    return items[:k]


def cmd_key():
    return L()["wk"]["Command"]


def rsp_key():
    return L()["wk"]["Response"]


def stream_key():
    return L()["wk"]["CommandResponseStream"]


def cc_list():
    return sorted(int(c) for c in L()["cc"])


def cc_name(cc):
    return L()["cc"][str(cc)]["name"].split(".")[-1]
