"""C15 - hex, swtpm-log, pcapng and auto inputs decode like the bytes they carry."""
from engine.native import assume, note
from tpmstream.io.binary import Binary

from . import spaces as sp
from .common import DOCUMENTED, get_type
from .props import _events_equal, kind_of

META = {
    "rule": "(a) hex: every text of each length <= L over the full 256-symbol alphabet against the stated rule; "
            "(b) swtpm: documented-layout skeletons with symbolic payload nibbles / separators, and one fully "
            "unconstrained character at a nibble position; (c) pcapng trimming logic with dpkt replaced by a stub "
            "that yields symbolic payloads; (d) auto-detection for every 2-byte magic; (e) Hex/SWTPMLog/Auto "
            "end-to-end on rendered shapes.",
    "bounds": {"quick": "hex L<=4; swtpm 2 skeletons; pcapng payload lengths 0..14, <= 2 packets; 3 shapes end-to-end",
               "thorough": "hex L<=6; pcapng 3 packets; more skeletons"},
    "outside": "dpkt's parsing of real pcapng containers (C struct code, stubbed); swtpm logs outside the documented "
               "layout except for one arbitrary character at a payload nibble position",
    "assumptions": ["stub: tpmstream.io.pcapng.marshal.dpkt replaced by an object whose Reader yields the harness's packets"],
    "wall_budget_s": {"quick": 260, "thorough": 840},
}
WS = (9, 10, 11, 12, 13, 32)


def hexval(c):
    if 48 <= c <= 57:
        return c - 48
    if 97 <= c <= 102:
        return c - 87
    if 65 <= c <= 70:
        return c - 55
    return None


def hex_rule(t):
    """the stated rule: drop ASCII whitespace; pairs of hex digits; -> (bytes of the complete valid pairs, error?)"""
    out, pend = [], []
    for c in t:
        if any([c == w for w in WS]):
            continue
        pend.append(c)
        if len(pend) == 2:
            a, b = hexval(pend[0]), hexval(pend[1])
            if a is None or b is None:
                return out, True
            out.append(a * 16 + b)
            pend = []
    return out, bool(pend)


def run_bytes_gen(g):
    out, err = [], None
    try:
        while True:
            out.append(next(g))
    except StopIteration:
        pass
    except ValueError as e:
        err = e
    return out, err


def hex_text(cfg, t):
    from tpmstream.io.hex.marshal import parse_hex_string

    got, err = run_bytes_gen(parse_hex_string(t))
    want, werr = hex_rule(t)
    note("hex:%s" % ("error" if werr else "ok"))
    checks = [("hex-rejects-exactly-non-pair-text", (err is not None) == werr),
              ("hex-byte-count", len(got) == len(want))]
    if len(got) == len(want):
        checks.append(("hex-bytes", all([x == y for x, y in zip(got, want)])))
    return checks


def auto_magic(cfg, t):
    from tpmstream.io.auto.marshal import detect_format_and_yield_buffer

    g = detect_format_and_yield_buffer(t, strict=False)
    fmt = next(g)
    rest = [c for c in g]
    is_hex = hexval(t[0]) is not None and hexval(t[1]) is not None
    if t[0] == 0x0A and t[1] == 0x0D:
        want = "pcapng"
    elif is_hex:
        want = "hex"
    else:
        want = "binary"
    note(want)
    return [("auto-detects-format", fmt == want), ("auto-hands-on-all-bytes", len(rest) == len(t) and all([x == y for x, y in zip(rest, t)]))]


class _Wrap:
    def __init__(self, data):
        self.data = data


class _FakeDpkt:
    """stand-in for the dpkt module inside tpmstream.io.pcapng.marshal"""

    class dpkt:
        class UnpackError(Exception):
            pass

    def __init__(self, packets):
        outer = self

        class pcapng:
            @staticmethod
            def Reader(file):
                return [(0.0, p) for p in packets]

        class ip:
            @staticmethod
            def IP(buf):
                return _Wrap(_Wrap(buf))

        class ethernet:
            @staticmethod
            def Ethernet(buf):
                return _Wrap(_Wrap(_Wrap(buf)))

        self.pcapng, self.ip, self.ethernet = pcapng, ip, ethernet


def pcap_trim(cfg, p0, p1):
    import importlib

    m = importlib.import_module("tpmstream.io.pcapng.marshal")
    packets = [p0, p1][:cfg["n"]]
    saved = m.dpkt
    m.dpkt = _FakeDpkt(packets)
    try:
        got = [b for b in m.bytes_from_pcap_file(None)]
    finally:
        m.dpkt = saved
    want = []
    for p in packets:
        if len(p) < 10:
            continue
        size = ((p[2] * 256 + p[3]) * 256 + p[4]) * 256 + p[5]
        n = len(p)
        k = 0
        for i in range(n):
            # byte i is kept iff i < size
            if i < size:
                k += 1
        want.extend(p[:k])
    note("packets")
    return [("pcapng-byte-count", len(got) == len(want))] + (
        [("pcapng-bytes-are-the-trimmed-payloads", all([x == y for x, y in zip(got, want)]))] if len(got) == len(want) else [])


def events_of(marshal, T, buf, **kw):
    evs, err = [], None
    g = marshal(tpm_type=T, buffer=buf, **kw)
    try:
        while True:
            evs.append(next(g))
    except StopIteration:
        pass
    except DOCUMENTED as e:
        err = e
    except ValueError as e:
        err = e
    return evs, err


def hex_end_to_end(cfg, t):
    """Hex.marshal / Auto.marshal of a rendering with symbolic hex digits == Binary.marshal of the carried bytes"""
    from tpmstream.io.auto import Auto
    from tpmstream.io.hex import Hex

    T = get_type(cfg["type"])
    kw = {"command_code": cfg.get("cc")}
    digits = cfg["digit_positions"]  # positions in t that are symbolic hex digits (any case)
    assume(all([hexval(t[i]) is not None for i in digits]))
    carried, werr = hex_rule(t)
    assume(not werr)
    front = Hex if cfg["front"] == "hex" else Auto
    e1, err1 = events_of(front.marshal, T, t, **kw)
    e2, err2 = events_of(Binary.marshal, T, carried, **kw)
    note("e2e:" + kind_of(err2))
    st, va = _events_equal(e1, e2)
    return [("front-end-events-equal-direct-decode", st and va), ("front-end-same-outcome", kind_of(err1) == kind_of(err2))]


# ---------------------------------------------------------------- swtpm
def swtpm_rule(sections):
    """sections: [(kind, payload bytes)] -> the SWTPM_IO payload bytes"""
    out = []
    for kind, payload in sections:
        if kind == "io":
            out.extend(payload)
    return out


def swtpm_skeleton(cfg, t):
    """documented layout, payload nibbles symbolic upper-case hex, separators symbolic from {space, CR, LF}"""
    from tpmstream.io.swtpm_log.marshal import parse_hex_string

    nib, sep = cfg["nibbles"], cfg["separators"]
    assume(all([any([all([48 <= t[i], t[i] <= 57]), all([65 <= t[i], t[i] <= 70])]) for i in nib]))
    assume(all([any([t[i] == 32, t[i] == 13, t[i] == 10]) for i in sep]))
    got, err = run_bytes_gen(parse_hex_string(t))
    # expected: the bytes of the SWTPM_IO sections
    want = []
    for a, b in cfg["io_pairs"]:
        ha = t[a] - 48 - 7 * int(t[a] >= 65)
        hb = t[b] - 48 - 7 * int(t[b] >= 65)
        want.append(ha * 16 + hb)
    note("swtpm-skeleton")
    checks = [("swtpm-accepts-documented-layout", err is None), ("swtpm-byte-count", len(got) == len(want))]
    if len(got) == len(want):
        checks.append(("swtpm-bytes-are-the-io-payloads", all([x == y for x, y in zip(got, want)])))
    return checks


def swtpm_one_char(cfg, t):
    """one arbitrary character at a payload nibble position of an SWTPM_IO section: either it is an upper-case
    hex digit and the byte changes accordingly, or the text is rejected with ValueError - never decoded to
    something else"""
    from tpmstream.io.swtpm_log.marshal import parse_hex_string

    p = cfg["pos"]
    c = t[p]
    got, err = run_bytes_gen(parse_hex_string(t))
    # 'S' starts a section marker; the scanner deliberately resynchronises on the next marker after it
    # (logs interleave other lines), so that character is outside the documented layout *and* outside this claim
    assume(c != 83)
    valid = any([all([48 <= c, c <= 57]), all([65 <= c, c <= 70])])
    if valid:
        note("valid-digit")
        want = []
        for a, b in cfg["io_pairs"]:
            want.append((t[a] - 48 - 7 * int(t[a] >= 65)) * 16 + (t[b] - 48 - 7 * int(t[b] >= 65)))
        return [("swtpm-valid-digit-decodes", err is None and len(got) == len(want) and all([x == y for x, y in zip(got, want)]))]
    note("other-character")
    return [("swtpm-non-hex-character-in-payload-is-rejected", err is not None)]


def render_swtpm(sections):
    """-> (text bytes, nibble positions, separator positions, io pairs [(pos hi, pos lo)])"""
    text = b"some free text before the first Section\n"
    nib, sep, pairs = [], [], []
    for kind, payload in sections:
        head = {"cmd": b"Ctrl Cmd", "rsp": b"Ctrl Rsp", "read": b"SWTPM_IO_Read", "write": b"SWTPM_IO_Write"}[kind]
        text += head + b": length %d\n" % len(payload)
        for i, byte in enumerate(payload):
            a = len(text)
            text += b"%02X" % byte
            nib += [a, a + 1]
            if kind in ("read", "write"):
                pairs.append((a, a + 1))
            sep.append(len(text))
            text += b"\n" if (i % 16 == 15 or i == len(payload) - 1) else b" "
    return text, nib, sep, pairs


def partitions(tier, seed):
    quick = tier == "quick"
    parts = []
    for n in range(0, 5 if quick else 7):
        parts.append({"id": "C15/hex/len%d" % n, "prop": "harness.c15:hex_text", "cfg": {}, "sym": [["t", "bytes", n]],
                      "budget_s": 200 if quick else 900})
    parts.append({"id": "C15/auto/magic", "prop": "harness.c15:auto_magic", "cfg": {}, "sym": [["t", "bytes", 2]], "budget_s": 60})
    parts.append({"id": "C15/auto/magic+1", "prop": "harness.c15:auto_magic", "cfg": {}, "sym": [["t", "bytes", 3]], "budget_s": 60})
    # the slice binary_blob[:size] concretises its bound, so the 32-bit size field is symbolic one byte at a time
    def pk(n, which):
        base = bytearray(n)
        free = [i for i in range(n) if i not in (2, 3, 4, 5)]
        if n > 5:
            free.append(5 if which == "low" else 2)
        return ["template", bytes(base).hex(), sorted(free)]

    for n0 in range(0, 15):
        for which in (("low", "high") if n0 >= 10 else ("low",)):
            parts.append({"id": "C15/pcapng/1-packet/len%d/size-%s-byte" % (n0, which), "prop": "harness.c15:pcap_trim", "cfg": {"n": 1},
                          "sym": [["p0"] + pk(n0, which), ["p1", "bytes", 0]], "budget_s": 120})
    for n0, n1 in ((9, 10), (11, 0)) if quick else ((9, 10), (10, 12), (11, 0)):
        parts.append({"id": "C15/pcapng/2-packets/len%d+%d" % (n0, n1), "prop": "harness.c15:pcap_trim", "cfg": {"n": 2},
                      "sym": [["p0"] + pk(n0, "low"), ["p1"] + pk(n1, "low")], "budget_s": 200})
    # end to end: rendered shapes, the hex digits of full-range leaves symbolic (any letter case)
    G = sp.gen()
    startup = [c for c in sp.cc_list() if sp.cc_name(c) == "Startup"][0]
    getrandom = [c for c in sp.cc_list() if sp.cc_name(c) == "GetRandom"][0]
    shapes = [(sp.cmd_key(), None, G.commands(startup, minimal=True)[0][1]),
              (sp.cmd_key(), None, G.commands(getrandom, minimal=True)[1][1]),
              (sp.rsp_key(), getrandom, G.responses(getrandom, minimal=True)[0][2])]
    for key, cc, data in shapes:
        tr = sp.trace_of(key, data, cc=cc)
        freeb = set(sp.free_unconstrained(tr))
        text, pos = b"", []
        for i, byte in enumerate(data):
            if i in freeb and len(pos) < 4:
                pos += [len(text), len(text) + 1]
            text += b"%02x" % byte + (b" " if i % 3 == 0 else b"") + (b"\n" if i % 8 == 7 else b"")
        for front in ("hex", "auto"):
            parts.append({"id": "C15/e2e/%s/%s-len%d" % (front, sp.short(key), len(data)), "prop": "harness.c15:hex_end_to_end",
                          "cfg": {"type": key, "cc": cc, "front": front, "digit_positions": pos},
                          "sym": [["t", "template", text.hex(), pos]], "budget_s": 120, "path_timeout_s": 60})
    # swtpm skeletons
    sk1 = [("cmd", bytes.fromhex("00000010")), ("rsp", bytes.fromhex("00000000")),
           ("read", bytes.fromhex("80010000000c000001440000")), ("write", bytes.fromhex("80010000000a00000000"))]
    sk2 = [("read", bytes.fromhex("80010000000c00000144")), ("cmd", bytes.fromhex("00000001")),
           ("rsp", bytes.fromhex("0000000000 01ffff".replace(" ", ""))), ("write", bytes.fromhex("8001"))]
    for si, sk in enumerate([sk1, sk2] if quick else [sk1, sk2, sk1 + sk2]):
        text, nib, sep, pairs = render_swtpm(sk)
        io_n = [x for pr in pairs for x in pr]
        for j in range(0, len(io_n), 4):
            chunk = io_n[j:j + 4]
            parts.append({"id": "C15/swtpm/skeleton%d/nibbles@%d" % (si, chunk[0]), "prop": "harness.c15:swtpm_skeleton",
                          "cfg": {"nibbles": chunk, "separators": [], "io_pairs": pairs},
                          "sym": [["t", "template", text.hex(), chunk]], "budget_s": 60})
        for j in range(0, len(sep), 6):
            chunk = sep[j:j + 6]
            parts.append({"id": "C15/swtpm/skeleton%d/separators@%d" % (si, chunk[0]), "prop": "harness.c15:swtpm_skeleton",
                          "cfg": {"nibbles": [], "separators": chunk, "io_pairs": pairs},
                          "sym": [["t", "template", text.hex(), chunk]], "budget_s": 60})
        for p in io_n[:: (3 if quick else 1)]:
            parts.append({"id": "C15/swtpm/skeleton%d/any-char@%d" % (si, p), "prop": "harness.c15:swtpm_one_char",
                          "cfg": {"pos": p, "io_pairs": pairs}, "sym": [["t", "template", text.hex(), [p]]], "budget_s": 60})
    return parts
