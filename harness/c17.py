"""C17 - attribute words decompose into fields that partition their bits."""
from engine.native import assume, note
from oracle.refdec import pinned_layout

from . import spaces as sp
from .common import get_type

META = {
    "rule": "One partition per attribute type, v symbolic over the whole word: masks of the live table pairwise "
            "disjoint and covering (concrete facts asserted in the same run), every accessor against the arithmetic "
            "definition, and the real pretty_attrs rows compared character by character (branch-free); a second partition per type does "
            "the same for the numbers 0..3 after the same number was rendered as another attribute type in the same path.",
    "bounds": {"quick": "all TPMA_* types, all 2^8 / 2^32 values", "thorough": "same (already complete)"},
    "outside": "column layout of a row (C14); attribute words as list elements (C14)",
    "wall_budget_s": {"quick": 250, "thorough": 600},
}


def runs(mask):
    out, i = [], 0
    while mask >> i:
        if (mask >> i) & 1:
            j = i
            while (mask >> j) & 1:
                j += 1
            out.append((i, j))
            i = j
        else:
            i += 1
    return out


def field_value(v, mask):
    """(v & mask) >> ctz(mask), written with div/mod only"""
    rs = runs(mask)
    low = rs[0][0]
    return sum(((v // 2 ** lo) % 2 ** (hi - lo)) * 2 ** (lo - low) for lo, hi in rs)


def bit_rows(T, v, path=None):
    """-> list of (attribute name, bits string) taken from the real pretty_attrs rows"""
    from tpmstream.common.event import MarshalEvent
    from tpmstream.common.path import Path, PathNode
    import importlib

    pm = importlib.import_module("tpmstream.io.pretty.unmarshal")

    p = Path(PathNode("")) / PathNode("attrs")
    x = T(v) if not hasattr(v, "_int_size") else v
    ev = MarshalEvent(p, T, x)
    rows = list(pm.pretty_attrs(ev))
    nbits = 8 * T._int_size
    out = []
    for attr, row in zip(x.attributes(), rows):
        marker = "X" * nbits
        tmpl = pm.format(None, p + PathNode(attr._name), None, marker)
        k = tmpl.index(marker)
        out.append((attr._name, attr._value, row[:k] == tmpl[:k], row[k:k + nbits], row[k + nbits:], tmpl[k + nbits:], attr._details))
    return rows, out


def row_conds(v, nbits, mask, bits):
    """bits string of one row: value bit at mask positions, '.' elsewhere"""
    conds = [len(bits) == nbits]
    if len(bits) != nbits:
        return conds
    for i in range(nbits):
        pos = nbits - 1 - i
        c = ord(bits[i])
        if (mask >> pos) & 1:
            conds.append(c == 48 + (v // 2 ** pos) % 2)
        else:
            conds.append(c == 46)
    return conds


def attr_word(cfg, v):
    T = get_type(cfg["type"])
    w = T._int_size
    nbits = 8 * w
    if cfg.get("other"):
        # the same number is first rendered as another attribute type: the result for T must not
        # depend on what was rendered before (value-keyed caches compare typed integers by number only)
        U = get_type(cfg["other"])
        y = U(v % 2 ** (8 * U._int_size))
        y.attributes()
        bit_rows(U, y)
    x = T(v)
    attrs = x.attributes()
    masks = [(a._name, a._value) for a in attrs]
    full = 2 ** nbits - 1
    union = 0
    disjoint = True
    for n, m in masks:
        if union & m:
            disjoint = False
        union |= m
    checks = [("masks-pairwise-disjoint", disjoint), ("masks-cover-the-word", union == full),
              ("masks-equal-pinned", dict(masks) == pinned_layout()["types"][cfg["type"]].get("bits"))]
    acc = []
    for n, m in masks:
        acc.append(getattr(x, n) == field_value(v, m))
    checks.append(("accessors-return-the-field-bits-right-aligned", all(acc)))
    rows, parsed = bit_rows(T, x)
    checks.append(("one-row-per-field", len(rows) == len(masks) and len(parsed) == len(masks)))
    conds = []
    for (n, m), (rn, rm, prefix_ok, bits, tail, tmpl_tail, details) in zip(masks, parsed):
        conds.append(prefix_ok)
        conds.append(tail == tmpl_tail)
        conds.extend(row_conds(v, nbits, m, bits))
    checks.append(("rows-show-field-bits-and-dots", all(conds)))
    note("word")
    return checks


def partitions(tier, seed):
    parts = []
    keys = [k for k, d in sorted(sp.L()["types"].items()) if d["kind"] == "prim" and d.get("bits")]
    for i, k in enumerate(keys):
        d = sp.L()["types"][k]
        if True:
            # history: the same (small) number rendered as the neighbouring attribute type first, in the same path
            parts.append({"id": "C17/%s/after-another-type" % sp.short(k), "prop": "harness.c17:attr_word",
                          "cfg": {"type": k, "other": keys[(i + 1) % len(keys)]},
                          "sym": [["v", "int", 0, 4]], "budget_s": 100, "path_timeout_s": 60})
            parts.append({"id": "C17/%s" % sp.short(k), "prop": "harness.c17:attr_word",
                          "cfg": {"type": k},
                          "sym": [["v", "int", 0, 2 ** (8 * d["width"])]], "budget_s": 200, "path_timeout_s": 60})
    return parts
