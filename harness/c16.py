"""C16 - protocol integers carry their value, width, validity and name faithfully."""
from engine.native import assume, note
from oracle.refdec import in_valid, pinned_layout

from . import spaces as sp
from .common import get_type

META = {
    "rule": "P(T): one partition per primitive type, v symbolic over every integer representable in the type's "
            "width, a second symbolic integer y for ordering; operator delegation decided with an opaque probe "
            "operand (no symbolic multiplication or shift reaches the solver) plus concrete right operands; "
            "hash on the solver-enumerated interval end points +-2 and width limits only; a further partition per "
            "type checks validity, byte form and text form right after the same symbolic number went through "
            "another type of the same width in the same path.",
    "bounds": {"quick": "all primitive types, full width", "thorough": "same + two-operand arithmetic with a second symbolic typed value"},
    "outside": "integers outside the type's width; hash() for values other than the enumerated boundary points "
               "(hash concretises its argument); float results of true division beyond delegation",
    "wall_budget_s": {"quick": 200, "thorough": 900},
}


class Probe:
    """Opaque operand: records which reflected/forward method was called with which plain integer."""

    def __init__(self):
        self.calls = []

    def _rec(self, name, other):
        if isinstance(other, Probe) or hasattr(type(other), "_int_size"):
            return NotImplemented
        self.calls.append((name, other))
        return ("result", name)


def _mk(name):
    def f(self, other):
        return self._rec(name, other)
    return f


for _n in ("add", "sub", "mul", "truediv", "floordiv", "mod", "pow", "lshift", "rshift", "and", "xor", "or", "divmod"):
    setattr(Probe, "__%s__" % _n, _mk(_n))
    setattr(Probe, "__r%s__" % _n, _mk("r" + _n))

import operator as _op

BINOPS = [("add", _op.add), ("sub", _op.sub), ("mul", _op.mul), ("truediv", _op.truediv),
          ("floordiv", _op.floordiv), ("mod", _op.mod), ("pow", _op.pow), ("lshift", _op.lshift),
          ("rshift", _op.rshift), ("and", _op.and_), ("xor", _op.xor), ("or", _op.or_)]


def expected_bytes(v, w, signed):
    u = v + 2 ** (8 * w) if signed and v < 0 else v
    return [(u // 256 ** (w - 1 - i)) % 256 for i in range(w)]


def typed_int(cfg, v, y):
    T = get_type(cfg["type"])
    d = pinned_layout()["types"][cfg["type"]]
    w, signed = d["width"], d["signed"]
    x = T(v)
    checks = [("int-eq", all([int(x) == v, x == v, not (x != v), x.__index__() == v])),
              ("ordering", all([(x < y) == (v < y), (x <= y) == (v <= y), (x > y) == (v > y), (x >= y) == (v >= y),
                                (y < x) == (y < v), (y >= x) == (y >= v)])),
              ("class-attrs", T._int_size == w and bool(T._signed) == signed)]
    tb = x.to_bytes()
    checks.append(("to-bytes-length", len(tb) == w))
    if len(tb) == w:
        exp = expected_bytes(v, w, signed)
        checks.append(("to-bytes-big-endian-twos-complement", all([tb[i] == exp[i] for i in range(w)])))
    valid = in_valid(d["valid"], v)
    checks.append(("validity", x.is_valid() == valid))
    # operator delegation, both operand orders, via the opaque probe
    deleg = []
    for name, op in BINOPS:
        p = Probe()
        r1 = op(x, p)
        deleg.append(r1 == ("result", "r" + name) and len(p.calls) == 1 and p.calls[0][0] == "r" + name)
        deleg.append(p.calls[0][1] == v if p.calls else False)
        q = Probe()
        r2 = op(q, x)
        deleg.append(r2 == ("result", name) and len(q.calls) == 1 and q.calls[0][0] == name)
        deleg.append(q.calls[0][1] == v if q.calls else False)
    p = Probe()
    r = divmod(x, p)
    deleg.append(isinstance(r, tuple) and [c[0] for c in p.calls] == ["rfloordiv", "rmod"] and all([c[1] == v for c in p.calls]))
    checks.append(("operators-delegate-to-the-integer", all(deleg)))
    # arithmetic against concrete operands (stays symbolic in the solver)
    checks.append(("arithmetic-concrete-operand", all([
        x + 3 == v + 3, 3 + x == 3 + v, x - 3 == v - 3, 3 - x == 3 - v, x * 3 == v * 3, 3 * x == 3 * v,
        x // 3 == v // 3, x % 3 == v % 3, x * (-2) == v * (-2), x // 7 == v // 7, x % 16 == v % 16,
    ])))
    if not d.get("rc") and not d.get("bits"):
        # response codes (C18) and attribute words (C17) have their own text forms
        checks.append(("text-form", text_form_ok(T, d, x, v, valid)))
    return checks


def after_other(cfg, v):
    """validity, text form and byte form of T(v) right after the same number was constructed, validated and
    rendered as another type of the same width (nothing may be remembered by number alone)"""
    T, U = get_type(cfg["type"]), get_type(cfg["other"])
    d = pinned_layout()["types"][cfg["type"]]
    try:
        u = U(v)
        u.is_valid()
        format(u)
        u.to_bytes()
    except Exception:  # noqa: BLE001  (how the other type renders the number is that type's partition)
        note("other-raised")
    x = T(v)
    valid = in_valid(d["valid"], v)
    checks = [("int-eq-after-another-type", all([int(x) == v, x == v])),
              ("validity-after-another-type", x.is_valid() == valid)]
    tb = x.to_bytes()
    exp = expected_bytes(v, d["width"], d["signed"])
    checks.append(("to-bytes-after-another-type", len(tb) == d["width"] and all([tb[i] == exp[i] for i in range(min(len(tb), d["width"]))])))
    if not d.get("rc") and not d.get("bits"):
        checks.append(("text-form-after-another-type", text_form_ok(T, d, x, v, valid)))
    return checks


def text_form_ok(T, d, x, v, valid):
    """format(x): the declared member name; for named ranges <enum>.<base><sep><hex offset zero padded>;
    plain integers (range members / unnamed points) print as the integer."""
    if not valid:
        note("invalid")
        return True
    s = format(x)
    for it in d["valid"]:
        if it["k"] == "point" and v == it["v"]:
            note("point")
            if it["name"] is None:
                return s == format(v)
            # several members may share a value (aliases): any declared name of that value
            # the member name, prefixed by the enumeration it was declared in or by the (derived) type itself
            names = [j["name"] for j in d["valid"] if j["k"] == "point" and j["v"] == it["v"] and j["name"]]
            names += [T.__name__ + "." + n.split(".", 1)[1] for n in names if "." in n]
            return s in names
    for it in d["valid"]:
        if it["k"] == "range" and it["lo"] <= v and v < it["hi"]:
            note("range")
            return s == format(v)
        if it["k"] == "nrange" and it["lo"] <= v and v < it["hi"]:
            note("nrange")
            prefix = "%s.%s%s" % (it["enum"], it["base"], it["sep"])
            if len(s) != len(prefix) + it["nib"] or s[:len(prefix)] != prefix:
                return False
            suffix = s[len(prefix):]
            off = v - it["lo"]
            conds = []
            for i in range(it["nib"]):
                dgt = (off // 16 ** (it["nib"] - 1 - i)) % 16
                c = ord(suffix[i])
                conds.append(any([all([dgt < 10, c == 48 + dgt]), all([dgt >= 10, c == 87 + dgt])]))
            return all(conds)
    return False


def hash_points(cfg, v):
    T = get_type(cfg["type"])
    pts = cfg["points"]
    assume(any([v == p for p in pts]))
    x = T(v)
    note("hash")
    return [("hash", hash(x) == hash(v)), ("hash-eq-consistent", x == v)]


def partitions(tier, seed):
    parts = []
    LT = sp.L()["types"]
    PT = pinned_layout()["types"]
    keys = list(sp.prim_keys())
    for k in keys:
        d = LT[k]
        same = [j for j in keys if (LT[j]["width"], LT[j]["signed"]) == (d["width"], d["signed"]) and not LT[j].get("rc") and not LT[j].get("bits")]  # rc / attribute words: C18 / C17 have their own history partitions
        if k in same and len(same) > 1:
            w_ = d["width"]
            lo_ = -(2 ** (8 * w_ - 1)) if d["signed"] else 0
            hi_ = 2 ** (8 * w_ - 1) if d["signed"] else 2 ** (8 * w_)
            parts.append({"id": "C16/after-another-type/%s" % sp.short(k), "prop": "harness.c16:after_other",
                          "cfg": {"type": k, "other": same[(same.index(k) + 1) % len(same)]},
                          "sym": [["v", "int", lo_, hi_]], "budget_s": 100})
        w = d["width"]
        lo = -(2 ** (8 * w - 1)) if d["signed"] else 0
        hi = 2 ** (8 * w - 1) if d["signed"] else 2 ** (8 * w)
        parts.append({"id": "C16/P/%s" % sp.short(k), "prop": "harness.c16:typed_int", "cfg": {"type": k},
                      "sym": [["v", "int", lo, hi], ["y", "int", lo - 1, hi + 1]], "budget_s": 60})
        pts = {lo, lo + 1, hi - 1, hi - 2, 0, 1}
        for it in (PT.get(k) or d)["valid"]:
            if it["k"] == "point":
                pts |= {it["v"] - 1, it["v"], it["v"] + 1}
            else:
                pts |= {it["lo"] - 2, it["lo"] - 1, it["lo"], it["lo"] + 1, it["hi"] - 2, it["hi"] - 1, it["hi"], it["hi"] + 1}
        pts = sorted(p for p in pts if lo <= p < hi)
        if tier == "quick" and len(pts) > 40:
            pts = pts[::max(1, len(pts) // 40)]
        parts.append({"id": "C16/hash/%s" % sp.short(k), "prop": "harness.c16:hash_points",
                      "cfg": {"type": k, "points": pts}, "sym": [["v", "int", lo, hi]], "budget_s": 40})
    return parts
