"""C05 - input length mismatches are reported as depleted / superfluous, never absorbed."""
from . import spaces as sp

PROP = "harness.props:strict_ref"
META = {
    "rule": "M/cut: every prefix (cut point 0..len-1) of a well-formed shape with its free leaves symbolic; "
            "M+suffix: a shape followed by 1..3 symbolic surplus bytes; streams of one and two command/response "
            "pairs cut at every point; S(T,n) for short n including the empty input. Reference: RefDec.",
    "bounds": {
        "quick": "minimal shapes of 12 seed-rotated command codes + core (incl. the two commands carrying a command code as data), every cut, surpluses of 1-3, 65 and 300 bytes; one-pair streams and two-pair streams with different codes at every cut; every structure type at lengths 0..2 and m-1",
        "thorough": "all command codes, two-pair streams, every structure type at every length below m",
    },
    "outside": "shapes the generator does not produce; suffixes longer than 3 bytes",
    "wall_budget_s": {"quick": 270, "thorough": 840},
}
CORE = ("Startup", "GetRandom", "NV_Read", "PolicyCommandCode", "SetCommandCodeAuditStatus")  # the last two carry a TPM_CC as data


def cuts(key, lab, data, tr, cfg, step=1):
    out = []
    free_all = set(sp.free_unconstrained(tr))
    for k in range(0, len(data), step):
        base = data[:k]
        out.append(sp.M(PROP, "C05", key, "%s/cut%d" % (lab, k), base, [i for i in free_all if i < k], budget=30, cfg=cfg))
    for extra in (1, 2, 3, 65, 300):
        base = data + b"\x00" * extra
        sfx = list(range(len(data), len(base)))
        if extra > 3:
            sfx = sfx[:1] + sfx[-2:]  # a long surplus: first and last bytes symbolic, the rest zero
        out.append(sp.M(PROP, "C05", key, "%s/suffix%d" % (lab, extra), base, sorted(free_all) + sfx, budget=30, cfg=cfg))
    return out


def partitions(tier, seed):
    quick = tier == "quick"
    parts = []
    for k in sp.struct_keys() + sp.prim_keys() + (sp.area_keys() if not quick else sp.rotate(sp.area_keys(), seed, 40)):
        m = sp.min_size(k)
        ns = sorted(set([0, 1, 2, max(0, m - 1)])) if quick else range(0, m + 1)
        for n in ns:
            if n <= 14:
                parts.append(sp.S(PROP, "C05", k, n, budget=25))
    G = sp.gen()
    ccs = sp.cc_list()
    if quick:
        core = [c for c in ccs if sp.cc_name(c) in CORE]
        ccs = sorted(set(sp.rotate(ccs, seed + 6, 12) + core))
    for cc in ccs:
        cmds = G.commands(cc, minimal=True)
        rsps = G.responses(cc, minimal=True)
        for label, data in cmds:
            tr = sp.trace_of(sp.cmd_key(), data)
            parts.extend(cuts(sp.cmd_key(), "%s-%s" % (sp.cc_name(cc), label), data, tr, None))
        for label, enc, data in rsps:
            tr = sp.trace_of(sp.rsp_key(), data, cc=cc, enc=enc)
            parts.extend(cuts(sp.rsp_key(), "%s-%s" % (sp.cc_name(cc), label), data, tr, {"cc": cc, "enc": enc}))
        # streams: command + matching response (no sessions), cut at every point; thorough: two pairs
        c = cmds[0][1]
        r = rsps[0][2]
        stream = c + r
        if not quick:
            stream = stream + stream
        for k in range(0, len(stream) + 1):
            parts.append(sp.M(PROP, "C05", sp.stream_key(), "%s-stream/cut%d" % (sp.cc_name(cc), k), stream[:k], [], budget=20))
    # two pairs with DIFFERENT command codes (the error must carry the code of the command decoded last)
    chosen = list(ccs)
    pairs = list(zip(chosen, chosen[1:] + chosen[:1]))
    if quick:
        pairs = pairs[:6]
    for c1, c2 in pairs:
        if c1 == c2:
            continue
        s1 = G.commands(c1, minimal=True)[0][1] + G.responses(c1, minimal=True)[0][2]
        s2 = G.commands(c2, minimal=True)[-1][1] + [r for r in G.responses(c2, minimal=True) if r[0] == "sess1"][0][2]
        stream = s1 + s2
        for k in range(len(s1), len(stream) + 1):
            parts.append(sp.M(PROP, "C05", sp.stream_key(), "%s+%s-stream/cut%d" % (sp.cc_name(c1), sp.cc_name(c2), k), stream[:k], [], budget=20))
    return parts
