"""Reference interpreter of the TPM 2.0 wire format over a *pinned* layout dict (DESIGN.md 5.2).

Written from the property statements (C01, C03, C04, C05, C09), not from the decoder.  Plain Python
with an explicit cursor: it runs natively and, on symbolic bytes, under CrossHair.

events:  (path string, declared type name, value | ELL)
outcome: ("OK",) | (kind, {attributes})
"""
ELL = "..."
TAG_SESSIONS = 0x8002


class Stop(Exception):
    def __init__(self, kind, **kw):
        self.kind = kind
        self.kw = kw


class Region:
    __slots__ = ("path", "limit", "counted")

    def __init__(self, path, limit, counted=0):
        self.path, self.limit, self.counted = path, limit, counted


def in_valid(items, v):
    """membership in the pinned value set, as one disjunction (no per-item branching)"""
    conds = []
    for it in items:
        if it["k"] == "point":
            conds.append(v == it["v"])
        else:
            conds.append(all([it["lo"] <= v, v < it["hi"]]))
    return any(conds)


class RefDec:
    def __init__(self, L, b, lenient_values=False):
        self.T = L["types"]
        self.CC = L["cc"]
        self.WK = L["wk"]
        self.b = b
        self.n = len(b)
        self.pos = 0
        self.regions = []
        self.events = []
        self.lenient = lenient_values
        self.value_warnings = []  # (index into events of the offending event, path, type, value)
        self.command_code = None
        self.trace = []  # (path, type key, offset, width, role) of every primitive consumed

    def tname(self, tref):
        if isinstance(tref, list):
            return "list[%s]" % self.T[tref[1]]["name"]
        return self.T[tref]["name"]

    # ---- leaves
    def prim(self, t, path, role="leaf"):
        d = self.T[t]
        w = d["width"]
        crossed = []
        for r in self.regions:
            if r.limit is not None and r.counted + w > r.limit:
                crossed.append(r)
        if crossed:
            cands = []
            for r in crossed:
                skip = r.limit - r.counted
                if skip < 0:
                    skip = 0
                cands.append({"cpath": r.path, "limit": r.limit, "counted": r.counted,
                              "exceeded_by": r.counted + w - r.limit, "skip": skip,
                              "enough": self.pos + skip <= self.n})
            # the outermost crossed region is the first candidate
            if not cands[0]["enough"]:
                raise Stop("Depleted", candidates=cands)
            raise Stop("Exceeded", violator=path, candidates=cands, pos=self.pos)
        if self.pos + w > self.n:
            raise Stop("Depleted")
        v = 0
        for i in range(w):
            v = v * 256 + self.b[self.pos + i]
        if d["signed"] and v >= 2 ** (8 * w - 1):
            v = v - 2 ** (8 * w)
        self.trace.append((path, t, self.pos, w, role))
        self.pos += w
        for r in self.regions:
            r.counted += w
        if not in_valid(d["valid"], v):
            if not self.lenient:
                raise Stop("Value", path=path, type=d["name"], tkey=t, value=v, pos=self.pos)
            self.value_warnings.append((len(self.events), path, d["name"], v))
        self.events.append((path, d["name"], v))
        return v

    def open_region(self, path, limit):
        for r in self.regions:
            if r.limit is not None and r.counted + limit > r.limit:
                raise Stop("Anticipated", cpath=r.path, limit=r.limit, counted=r.counted,
                           violator=path, violator_value=limit,
                           exceeded_by=r.counted + limit - r.limit, pos=self.pos)
        r = Region(path, limit)
        self.regions.append(r)
        return r

    def close_region(self, r):
        if r.counted < r.limit:
            raise Stop("Subceeded", cpath=r.path, limit=r.limit, counted=r.counted, pos=self.pos)
        self.regions.remove(r)

    # ---- composite
    def decode(self, tref, path, **kw):
        d = self.T[tref]
        k = d["kind"]
        if k == "prim":
            return self.prim(tref, path)
        if k == "tpm2b":
            return self.tpm2b(tref, path)
        if k == "struct":
            return self.struct(tref, path, **kw)
        raise AssertionError(k)

    def lst(self, elem, path, count):
        self.events.append((path, "list[%s]" % self.T[elem]["name"], ELL))
        i = 0
        while i < count:
            self.decode(elem, "%s[%d]" % (path, i))
            i += 1

    def tpm2b(self, t, path):
        (sn, st), (bn, bt) = self.T[t]["fields"]
        self.events.append((path, self.T[t]["name"], ELL))
        size = self.prim(st, path + "." + sn, role="size")
        r = self.open_region(path + "." + sn, size)
        if isinstance(bt, list):
            self.lst(bt[1], path + "." + bn, size)
            self.close_region(r)
            return
        if size == 0:
            self.events.append((path + "." + bn, self.T[bt]["name"], ELL))
            self.close_region(r)
            return
        self.decode(bt, path + "." + bn)
        self.close_region(r)

    def struct(self, t, path, enc=False):
        d = self.T[t]
        self.events.append((path, d["name"], ELL))
        vals = {}
        prev = None
        flds = [list(f) for f in d["fields"]]
        if enc:
            flds[0] = [flds[0][0], self.WK["TPM2B_ENCRYPTED_PARAM"]]
        selnames = set(d.get("selectors", {}).values())
        for i, (fn, ft) in enumerate(flds):
            p = path + "." + fn
            if isinstance(ft, list):
                self.lst(ft[1], p, prev)
                continue
            if self.T[ft]["kind"] == "union":
                self.union(ft, p, vals[d["selectors"][fn]])
                continue
            if self.T[ft]["kind"] == "prim":
                role = "leaf"
                if fn in selnames:
                    role = "selector"
                elif i + 1 < len(flds) and isinstance(flds[i + 1][1], list):
                    role = "count"
                elif fn == "sessionAttributes":
                    role = "attr"
                v = self.prim(ft, p, role=role)
                prev = v
            else:
                v = self.decode(ft, p)
            vals[fn] = v
        return vals

    def union(self, t, path, sel):
        self.events.append((path, self.T[t]["name"], ELL))
        chosen = None
        fallback = None
        for m in self.T[t]["members"]:
            if m["sel"] is None:
                fallback = m
            elif isinstance(m["sel"], int) and m["sel"] == sel:
                chosen = m  # for duplicate selector values the last member wins
        if chosen is None:
            chosen = fallback
        if chosen is None:
            raise Stop("NoMember", path=path, selector=sel)
        mt = chosen["type"]
        if mt is None:
            return
        p = path + "." + chosen["name"]
        if isinstance(mt, list):
            self.lst(mt[1], p, chosen["len"])
        else:
            self.decode(mt, p)

    def sessions(self, elem, path, region):
        self.events.append((path, "list[%s]" % self.T[elem]["name"], ELL))
        attrs = []
        i = 0
        while region.counted < region.limit:
            vals = self.struct(elem, "%s[%d]" % (path, i))
            attrs.append(vals["sessionAttributes"])
            i += 1
        return attrs

    def first_is_tpm2b(self, t):
        f = self.T[t]["fields"]
        return bool(f) and isinstance(f[0][1], str) and self.T[f[0][1]]["kind"] == "tpm2b"

    def cc_entry(self, cc):
        for k, tab in self.CC.items():
            if cc == int(k):
                return tab
        return None

    def command(self, path):
        cmd = Region(path + ".commandSize", None)
        self.regions.append(cmd)
        self.events.append((path, "Command", ELL))
        tag = self.prim(self.WK["Command.tag"], path + ".tag", role="hdr")
        size = self.prim(self.WK["Command.commandSize"], path + ".commandSize", role="size")
        cmd.limit = size
        cc = self.prim(self.WK["Command.commandCode"], path + ".commandCode", role="hdr")
        self.command_code = cc
        tab = self.cc_entry(cc)
        if tab is None:
            raise Stop("Value", path=path + ".commandCode", type="TPM_CC", tkey=self.WK["Command.commandCode"], value=cc, pos=self.pos, late=True)
        self.struct(tab["ch"], path + ".handles")
        dec = False
        encr = False
        if tag == TAG_SESSIONS:
            asz = self.prim(self.WK["Command.authSize"], path + ".authSize", role="size")
            ar = self.open_region(path + ".authSize", asz)
            attrs = self.sessions(self.WK["Command.authorizationArea"][1], path + ".authorizationArea", ar)
            self.close_region(ar)
            for a in attrs:
                if (a // 32) % 2 == 1:
                    dec = True
                if (a // 64) % 2 == 1:
                    encr = True
        if dec and not self.first_is_tpm2b(tab["cp"]):
            raise Stop("Undefined", why="decrypt session attribute but first parameter is not a TPM2B")
        self.struct(tab["cp"], path + ".parameters", enc=dec)
        self.close_region(cmd)
        return cc, encr

    def response(self, path, cc, enc):
        rsp = Region(path + ".responseSize", None)
        self.regions.append(rsp)
        self.events.append((path, "Response", ELL))
        tag = self.prim(self.WK["Response.tag"], path + ".tag", role="hdr")
        size = self.prim(self.WK["Response.responseSize"], path + ".responseSize", role="size")
        rsp.limit = size
        rc = self.prim(self.WK["Response.responseCode"], path + ".responseCode", role="hdr")
        if rc == 0:
            tab = self.cc_entry(cc)
            self.struct(tab["rh"], path + ".handles")
            if tag == TAG_SESSIONS:
                psz = self.prim(self.WK["Response.parameterSize"], path + ".parameterSize", role="size")
                pr = self.open_region(path + ".parameterSize", psz)
            if enc and not self.first_is_tpm2b(tab["rp"]):
                raise Stop("Undefined", why="encrypted response expected but first parameter is not a TPM2B")
            self.struct(tab["rp"], path + ".parameters", enc=bool(enc))
            if tag == TAG_SESSIONS:
                self.close_region(pr)
                attrs = self.sessions(self.WK["Response.authorizationArea"][1], path + ".authorizationArea", rsp)
                e2 = False
                for a in attrs:
                    if (a // 64) % 2 == 1:
                        e2 = True
                if e2 != bool(enc):
                    raise Stop("Undefined", why="response session encrypt attribute differs from the flag the caller passed")
        self.close_region(rsp)

    def run(self, tkey, cc=None, enc=None):
        """tkey: layout key of the type to decode (or WK name Command/Response/CommandResponseStream)"""
        outcome = ("OK",)
        special = self.T[tkey].get("kind") == "special" and self.T[tkey]["name"]
        try:
            if special == "Command":
                self.command("")
            elif special == "Response":
                self.response("", cc, enc)
            elif special == "CommandResponseStream":
                while self.pos < self.n:
                    self.regions = []
                    c, e = self.command("")
                    if self.pos >= self.n:
                        break
                    self.regions = []
                    self.response("", c, e or None)
                return self.events, outcome
            else:
                self.decode(tkey, "")
            if self.pos < self.n:
                raise Stop("Superfluous", surplus=self.b[self.pos:], pos=self.pos)
        except Stop as s:
            outcome = (s.kind, s.kw)
        return self.events, outcome


_PINNED = [None]


def pinned_layout():
    if _PINNED[0] is None:
        import json
        import os

        p = os.path.join(os.path.dirname(os.path.abspath(__file__)), "pinned", "layout.json")
        _PINNED[0] = json.load(open(p))
    return _PINNED[0]
