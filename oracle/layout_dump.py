"""Dump tpmstream's live layout tables into a plain JSON-able dict (DESIGN.md 5.1).

Run on /repo's current tree by every check that needs shapes or the regenerated encoding;
`oracle/pinned/layout.json` is one such dump, committed, and read by RefDec / C20 only.

Keys are 'module:qualname' (with '#n' appended if two distinct class objects share one).
"""
import json
import sys
from dataclasses import fields, is_dataclass
from typing import Any

from tpmstream.common.util import is_list
from tpmstream.spec.commands import (
    Command,
    CommandResponseStream,
    Response,
    command_response_types,
)
from tpmstream.spec.commands.params_common import TPM2B_ENCRYPTED_PARAM
from tpmstream.spec.common.values import NamedRange
from tpmstream.spec.structures import structures_types
from tpmstream.spec.structures.constants import TPM_CC, TPM_RC


class Dumper:
    def __init__(self):
        self.key_of = {}  # id(class) -> key
        self.cls_of = {}  # key -> class
        self.types = {}

    def key(self, t):
        k = self.key_of.get(id(t))
        if k is not None:
            return k
        base = "%s:%s" % (t.__module__, t.__qualname__)
        k, n = base, 1
        while k in self.cls_of:
            n += 1
            k = "%s#%d" % (base, n)
        self.key_of[id(t)] = k
        self.cls_of[k] = t
        self.types[k] = None  # reserve (recursion)
        self.types[k] = self.dump_type(t)
        return k

    def tref(self, t):
        if t is None:
            return None
        if t is Any:
            return "ANY"
        if is_list(t):
            return ["list", self.key(t.__args__[0])]
        return self.key(t)

    @staticmethod
    def is_enum_class(v):
        return isinstance(v, type) and hasattr(v, "class_iter")

    def valid_items(self, vv):
        out = []

        def add_member(m):
            if isinstance(m, NamedRange):
                out.append({"k": "nrange", "enum": m._type.__name__, "base": m._basename,
                            "lo": m._start, "hi": m._end, "sep": m._sep, "nib": m._index_nibbles})
            else:
                out.append({"k": "point", "v": int(m), "name": format(m)})

        for v in vv._values:
            if isinstance(v, range):
                assert v.step == 1
                out.append({"k": "range", "lo": v.start, "hi": v.stop})
            elif isinstance(v, NamedRange) or (hasattr(v, "_name") and hasattr(v, "_value")):
                add_member(v)
            elif self.is_enum_class(v):
                for m in v:
                    add_member(m)
            else:
                out.append({"k": "point", "v": int(v), "name": None})
        return out

    def dump_type(self, T):
        name = T.__name__
        if T in (Command, Response, CommandResponseStream):
            return {"kind": "special", "name": name}
        if hasattr(T, "_int_size"):
            d = {"kind": "prim", "name": name, "width": T._int_size, "signed": bool(T._signed),
                 "valid": self.valid_items(T._valid_values)}
            if T is TPM_RC or issubclass(T, TPM_RC):
                d["rc"] = True
            elif hasattr(T, "attributes") and name.startswith("TPMA"):
                d["bits"] = {m._name: int(m._value) for m in T(0).attributes()}
            return d
        fl = [[f.name, self.tref(f.type)] for f in fields(T)] if is_dataclass(T) else []
        if name.startswith("TPM2B"):
            return {"kind": "tpm2b", "name": name, "fields": fl}
        if hasattr(T, "_selected_by"):
            mem = []
            for f in fields(T):
                sel = T._selected_by.get(f.name, "MISSING")
                if sel is None:
                    k = None
                elif isinstance(sel, type):
                    k = "class:" + sel.__name__
                elif isinstance(sel, str):
                    k = sel
                else:
                    k = int(sel)
                mem.append({"name": f.name, "type": self.tref(f.type), "sel": k,
                            "len": getattr(T, "_list_size", {}).get(f.name)})
            return {"kind": "union", "name": name, "members": mem}
        return {"kind": "struct", "name": name, "fields": fl,
                "selectors": dict(getattr(T, "_selectors", {}))}


def dump(extra_types=()):
    D = Dumper()
    for T in list(structures_types) + list(command_response_types) + [TPM2B_ENCRYPTED_PARAM] + list(extra_types):
        D.key(T)
    cc = {}
    for c in TPM_CC:
        cc[str(int(c))] = {
            "name": format(c),
            "ch": D.key(Command._type_maps["handles"][c]),
            "cp": D.key(Command._type_maps["parameters"][c]),
            "rh": D.key(Response._type_maps["handles"][c]),
            "rp": D.key(Response._type_maps["parameters"][c]),
        }
    # well-known entry points used by RefDec
    wk = {
        "Command": D.key(Command), "Response": D.key(Response),
        "CommandResponseStream": D.key(CommandResponseStream),
        "TPM2B_ENCRYPTED_PARAM": D.key(TPM2B_ENCRYPTED_PARAM),
    }
    for f in fields(Command):
        if f.type is not Any:
            wk["Command." + f.name] = D.tref(f.type)
    for f in fields(Response):
        if f.type is not Any:
            wk["Response." + f.name] = D.tref(f.type)
    # extra map sizes: table keys that are not TPM_CC members would be silently unreachable
    tables = {
        "ch": sorted(int(k) for k in Command._type_maps["handles"]),
        "cp": sorted(int(k) for k in Command._type_maps["parameters"]),
        "rh": sorted(int(k) for k in Response._type_maps["handles"]),
        "rp": sorted(int(k) for k in Response._type_maps["parameters"]),
    }
    return {"types": D.types, "cc": cc, "wk": wk, "table_keys": tables}, D


def dump_rc():
    """TPM_RC name tables and mask constants (for C18)."""
    import tpmstream.spec.common.tpm_rc as m

    out = {}
    for name in dir(m):
        v = getattr(m, name)
        if isinstance(v, dict) and v and all(isinstance(k, int) for k in v):
            out[name] = {str(k): (list(x) if isinstance(x, (tuple, list)) else str(x)) for k, x in v.items()}
    return out


if __name__ == "__main__":
    L, _ = dump()
    L["rc_tables"] = dump_rc()
    json.dump(L, open(sys.argv[1], "w"), indent=0, sort_keys=True)
    print("types", len(L["types"]), "cc", len(L["cc"]))
