"""Each-choice generator of well-formed encodings ("shapes") over a layout dict (DESIGN.md section 4).

It is run on the dump of the *live* tables, so shapes follow /repo's current tree; RefDec reads
the pinned tables.  A shape is a complete well-formed encoding plus the list of its leaves.
"""


class Unbuildable(Exception):
    """the live tables do not allow this variant to be built (e.g. a valid selector value without a union
    member): the variant is skipped here; finding such incoherence is C20's (and C06's) business"""


class Gen:
    def __init__(self, L):
        self.T = L["types"]
        self.CC = L["cc"]
        self.WK = L["wk"]
        self.memo = {}

    # ---- primitives
    def prim_values(self, t):
        """one representative per valid item"""
        d = self.T[t]
        out = []
        for it in d["valid"]:
            v = it["v"] if it["k"] == "point" else it["lo"]
            if v not in out:
                out.append(v)
        return out

    def enc_int(self, t, v):
        d = self.T[t]
        return int(v).to_bytes(d["width"], "big", signed=d["signed"])

    # ---- variants: list of bytes
    def variants(self, tref, depth=0):
        key = repr(tref)
        if key in self.memo:
            return self.memo[key]
        d = self.T[tref]
        k = d["kind"]
        if k == "prim":
            r = [self.enc_int(tref, self.prim_values(tref)[0])]
        elif k == "tpm2b":
            r = self.tpm2b(tref, depth)
        elif k == "struct":
            r = self.struct(tref, depth)
        else:
            raise AssertionError(k)
        self.memo[key] = r
        return r

    def default(self, tref, depth=0):
        return self.variants(tref, depth)[0]

    def tpm2b(self, t, depth):
        (sn, st), (bn, bt) = self.T[t]["fields"]
        out = []
        if isinstance(bt, list):
            for n in (1, 0, 3):
                out.append(self.enc_int(st, n) + bytes([0xA0 + i for i in range(n)]))
        else:
            for p in self.variants(bt, depth + 1):
                out.append(self.enc_int(st, len(p)) + p)
            out.append(self.enc_int(st, 0))
        return out

    def struct(self, t, depth):
        d = self.T[t]
        flds = d["fields"]
        sels = d.get("selectors", {})
        selector_names = sorted(set(sels.values()))

        def build(selvals, pick_field=None, pick_variant=None, list_len=1):
            parts = []
            for i, (fn, ft) in enumerate(flds):
                if isinstance(ft, list):
                    n = list_len
                    elem = ft[1]
                    if pick_field == fn and pick_variant is not None:
                        body = pick_variant
                        n = 1
                    else:
                        body = self.default(elem, depth + 1) * n
                    cf, ct = flds[i - 1]
                    parts[-1] = self.enc_int(ct, n)
                    parts.append(body)
                    continue
                if self.T[ft]["kind"] == "union":
                    sv = selvals[sels[fn]]
                    parts.append(self.union(ft, sv, depth + 1))
                    continue
                if fn in selvals:
                    parts.append(self.enc_int(ft, selvals[fn]))
                    continue
                if pick_field == fn and pick_variant is not None:
                    parts.append(pick_variant)
                else:
                    parts.append(self.default(ft, depth + 1))
            return b"".join(parts)

        selcands = {}
        for sn in selector_names:
            st = dict(flds)[sn]
            selcands[sn] = self.prim_values(st)
        base = {sn: selcands[sn][0] for sn in selector_names}
        _build = build

        def build(*a, **k):  # noqa: F811  (unbuildable variants are skipped)
            try:
                return _build(*a, **k)
            except Unbuildable:
                return None

        out = [build(base)]
        if out[0] is None:
            # the default selector value has no member: try the others as base
            for sn in selector_names:
                for v in selcands[sn][1:]:
                    cand = dict(base)
                    cand[sn] = v
                    if build(cand) is not None:
                        base = cand
                        break
            out = [build(base)]
            if out[0] is None:
                raise Unbuildable(t)
        for sn in selector_names:
            for v in selcands[sn][1:]:
                sv = dict(base)
                sv[sn] = v
                out.append(build(sv))
        for fn, ft in flds:
            if isinstance(ft, list):
                for n in (0, 2):
                    out.append(build(base, list_len=n))
                for p in self.variants(ft[1], depth + 1)[1:]:
                    out.append(build(base, pick_field=fn, pick_variant=p))
                continue
            if fn in base:
                continue
            if self.T[ft]["kind"] == "union":
                continue
            if self.T[ft]["kind"] == "prim":
                for v in self.prim_values(ft)[1:3]:
                    out.append(build(base, pick_field=fn, pick_variant=self.enc_int(ft, v)))
                continue
            for p in self.variants(ft, depth + 1)[1:]:
                out.append(build(base, pick_field=fn, pick_variant=p))
        # dedupe, keep order
        seen = set()
        res = []
        for o in out:
            if o is None:
                continue
            if o not in seen:
                seen.add(o)
                res.append(o)
        return res

    def union(self, t, sel, depth):
        chosen = None
        fallback = None
        for m in self.T[t]["members"]:
            if m["sel"] is None:
                fallback = m
            elif isinstance(m["sel"], int) and m["sel"] == sel:
                chosen = m
        if chosen is None:
            chosen = fallback
        if chosen is None:
            raise Unbuildable((t, sel))
        mt = chosen["type"]
        if mt is None:
            return b""
        if isinstance(mt, list):
            return self.default(mt[1], depth) * chosen["len"]
        return self.default(mt, depth)

    # ---- messages
    def session_cmd(self, attrs, nonce=b"\xaa\xbb", hmac=b"\xcc"):
        return (bytes.fromhex("40000009") + len(nonce).to_bytes(2, "big") + nonce + bytes([attrs])
                + len(hmac).to_bytes(2, "big") + hmac)

    def session_rsp(self, attrs, nonce=b"\xaa\xbb", hmac=b""):
        return len(nonce).to_bytes(2, "big") + nonce + bytes([attrs]) + len(hmac).to_bytes(2, "big") + hmac

    def first_is_tpm2b(self, t):
        f = self.T[t]["fields"]
        return bool(f) and isinstance(f[0][1], str) and self.T[f[0][1]]["kind"] == "tpm2b"

    def rest_after_first(self, t):
        out = b""
        flds = self.T[t]["fields"]
        for i, (fn, ft) in enumerate(flds[1:], start=1):
            if isinstance(ft, list):
                # counted list directly after the first parameter: count is part of default of previous
                raise NotImplementedError
            out += self.default(ft)
        return out

    @staticmethod
    def mk_command(tag, cc, h, auth, p):
        body = int(cc).to_bytes(4, "big") + h + auth + p
        return tag.to_bytes(2, "big") + (len(body) + 6).to_bytes(4, "big") + body

    @staticmethod
    def mk_response(tag, rc, body):
        return tag.to_bytes(2, "big") + (len(body) + 10).to_bytes(4, "big") + rc.to_bytes(4, "big") + body

    def commands(self, cc, minimal=False):
        """-> list of (label, bytes)"""
        tab = self.CC[str(cc)]
        out = []
        hv = self.variants(tab["ch"])
        pv = self.variants(tab["cp"])
        out.append(("nosess", self.mk_command(0x8001, cc, hv[0], b"", pv[0])))
        if not minimal:
            for i, p in enumerate(pv[1:]):
                out.append(("nosess-p%d" % (i + 1), self.mk_command(0x8001, cc, hv[0], b"", p)))
            for i, h in enumerate(hv[1:]):
                out.append(("nosess-h%d" % (i + 1), self.mk_command(0x8001, cc, h, b"", pv[0])))
        for ns in ((1,) if minimal else (0, 1, 2, 3)):
            area = b"".join(self.session_cmd(0x01) for _ in range(ns))
            out.append(("sess%d" % ns, self.mk_command(0x8002, cc, hv[0], len(area).to_bytes(4, "big") + area, pv[0])))
        if self.first_is_tpm2b(tab["cp"]):
            try:
                area = self.session_cmd(0x21)
                encp = b"\x00\x03\x01\x02\x03" + self.rest_after_first(tab["cp"])
                out.append(("decrypt", self.mk_command(0x8002, cc, hv[0], len(area).to_bytes(4, "big") + area, encp)))
                if not minimal:
                    # the decrypt attribute on the second / third session only
                    for label, attrs in (("decrypt-2nd", (0x01, 0x21)), ("decrypt-3rd", (0x01, 0x01, 0x21)), ("decrypt-1st", (0x21, 0x01))):
                        area = b"".join(self.session_cmd(a) for a in attrs)
                        out.append((label, self.mk_command(0x8002, cc, hv[0], len(area).to_bytes(4, "big") + area, encp)))
            except NotImplementedError:
                pass
        return out

    def responses(self, cc, minimal=False):
        """-> list of (label, parameter_encryption flag, bytes)"""
        tab = self.CC[str(cc)]
        out = []
        hv = self.variants(tab["rh"])
        pv = self.variants(tab["rp"])
        out.append(("nosess", None, self.mk_response(0x8001, 0, hv[0] + pv[0])))
        if not minimal:
            for i, p in enumerate(pv[1:]):
                out.append(("nosess-p%d" % (i + 1), None, self.mk_response(0x8001, 0, hv[0] + p)))
        out.append(("fail", None, self.mk_response(0x8001, 0x101, b"")))
        if not minimal:
            # TPM 1.2 style tag of a TPM_RC_BAD_TAG answer: a message that starts with a 0x00 byte
            out.append(("fail-badtag", None, self.mk_response(0x00C4, 0x1E, b"")))
        if not minimal:
            out.append(("fail-sess", None, self.mk_response(0x8002, 0x9A2, b"")))
        for ns in ((1,) if minimal else (1, 2)):
            area = b"".join(self.session_rsp(0x01) for _ in range(ns))
            out.append(("sess%d" % ns, None, self.mk_response(0x8002, 0, hv[0] + len(pv[0]).to_bytes(4, "big") + pv[0] + area)))
        if self.first_is_tpm2b(tab["rp"]):
            try:
                area = self.session_rsp(0x41)
                encp = b"\x00\x03\x01\x02\x03" + self.rest_after_first(tab["rp"])
                out.append(("encrypt", True, self.mk_response(0x8002, 0, hv[0] + len(encp).to_bytes(4, "big") + encp + area)))
                if not minimal:
                    for label, attrs in (("encrypt-2nd", (0x01, 0x41)), ("encrypt-1st", (0x41, 0x01))):
                        area = b"".join(self.session_rsp(a) for a in attrs)
                        out.append((label, True, self.mk_response(0x8002, 0, hv[0] + len(encp).to_bytes(4, "big") + encp + area)))
            except NotImplementedError:
                pass
        return out

    def structure_keys(self):
        """keys of all non-union, non-special types that can be decoded stand-alone"""
        return [k for k, d in self.T.items() if d["kind"] in ("prim", "tpm2b", "struct")]


_LIVE = [None]


def live_layout():
    """dump of /repo's current tables (once per process)"""
    if _LIVE[0] is None:
        from .layout_dump import dump

        _LIVE[0] = dump()[0]
    return _LIVE[0]
