#!/bin/bash
# ./run.sh <Cxx> <quick|thorough>   |   ./run.sh --replay <file>
cd "$(dirname "$0")"
./bootstrap.sh >&2 || exit 3
export PYTHONHASHSEED=0
# VERIF_REPO_SRC: analyse another checkout of the repository (used only by background sweeps on a /repo snapshot)
if [ -n "${VERIF_REPO_SRC:-}" ]; then export PYTHONPATH="$VERIF_REPO_SRC"; fi
exec /verif/.venv/bin/python -m engine.main "$@"
