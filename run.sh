#!/bin/bash
# ./run.sh <Cxx> <quick|thorough>   |   ./run.sh --replay <file>
cd "$(dirname "$0")"
./bootstrap.sh >&2 || exit 3
export PYTHONHASHSEED=0
exec /verif/.venv/bin/python -m engine.main "$@"
