#!/bin/bash
# quick consistency check of /verif itself (run before committing): all harness modules import and
# define partitions/META, MANIFEST and evidence validate against the schemas
cd "$(dirname "$0")/.."
.venv/bin/python - <<'PY'
import sys, json, glob, importlib
sys.path.insert(0, '/verif')
import jsonschema
for m in ['c%02d' % i for i in range(1, 21) if i != 19]:
    mod = importlib.import_module('harness.' + m)
    assert hasattr(mod, 'partitions') and hasattr(mod, 'META'), m
jsonschema.validate(json.load(open('MANIFEST.json')), json.load(open('/root/.vp/MANIFEST.schema.json')))
for f in glob.glob('evidence/*.json'):
    jsonschema.validate(json.load(open(f)), json.load(open('/root/.vp/EVIDENCE.schema.json')))
claimed = {c['property_id'] for c in json.load(open('MANIFEST.json'))['checks']}
assert len(claimed) == 19, claimed
print('selfcheck ok')
PY
