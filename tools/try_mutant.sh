#!/bin/bash
# tools/try_mutant.sh <mutant-id> <property> [tier] [extra properties...]
# Confirms a seeded change independently (fresh worktree: tests pass, demo fails with / passes without the change),
# then runs the property's check against /repo with the change applied and restores /repo.
set -u
id=$1; prop=$2; tier=${3:-quick}
src=/verif/seeded/$id
[ -f $src/patch.diff ] || { echo "no $src/patch.diff"; exit 2; }
if [ "${SKIP_CONFIRM:-0}" != 1 ]; then
  wt=/tmp/mutv/$id; rm -rf $wt; mkdir -p /tmp/mutv
  git -C /repo worktree add -q --detach $wt HEAD || exit 2
  mkdir -p $wt/OUT; cp $src/demo.py $wt/OUT/
  ( cd $wt && PYTHONPATH=$wt/src /venv/bin/python OUT/demo.py >/dev/null 2>&1; echo "demo without change: exit $?" )
  git -C $wt apply $src/patch.diff || { echo "patch does not apply"; git -C /repo worktree remove --force $wt; exit 2; }
  ( cd $wt && PYTHONPATH=$wt/src /venv/bin/python OUT/demo.py >/dev/null 2>&1; echo "demo with change: exit $?" )
  ( cd $wt && PYTHONPATH=$wt/src /venv/bin/python -m pytest -q -p no:cacheprovider --timeout=900 --continue-on-collection-errors 2>&1 | tail -1 )
  git -C /repo worktree remove --force $wt
fi
git -C /repo diff --quiet || { echo "/repo has local changes"; exit 2; }
git -C /repo apply $src/patch.diff || exit 2
extra="${@:4}"
for p in $prop $extra; do
  ./run.sh $p $tier 2>/dev/null | grep -E "VIOLATION|failed condition|KNOWN|quick:|thorough:" | head -6
done
git -C /repo checkout -- .
git -C /repo diff --quiet && echo "(repo restored)"
