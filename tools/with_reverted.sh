#!/bin/bash
# tools/with_reverted.sh <commit-in-/repo> <property> [tier]  - run a check with one fix commit reverted (working tree only)
set -u
c=$1; p=$2; t=${3:-quick}
git -C /repo diff --quiet || { echo "/repo has local changes"; exit 2; }
git -C /repo show "$c" | git -C /repo apply -R || exit 2
./run.sh "$p" "$t" | grep -E "VIOLATION|failed condition|KNOWN|quick:|thorough:" | head -${4:-8}
git -C /repo checkout -- .
git -C /repo diff --quiet && echo "(repo restored)"
