#!/usr/bin/env python3
"""Regenerates /verif/MANIFEST.json from the table below (kept in one place so it stays valid)."""
import json, os
ROOT = os.path.dirname(os.path.dirname(os.path.abspath(__file__)))
TECH = "bounded symbolic execution of the real Python code (CrossHair state space) with z3 deciding every branch and every property condition per path; counterexamples replayed natively"
NOTE_COMMON = ("Trusted: CrossHair 0.0.110's models of Python int/bytes/str, z3 5.1, the adaptations E1-E11 and models B1-B7/M1 of "
               "DESIGN.md section 0.2 (validated against the builtins at setup). Bounded: see coverage.bounds / outside_claim in the evidence; "
               "partitions that do not exhaust within their budget are listed as incomplete and claim nothing.")
CHECKS = {
 "C01": dict(text="For every generated well-formed shape (live tables) with its interval-valued leaves symbolic, and every primitive type, strict decoding succeeds and its events equal the interpretation of an independent reference interpreter over the pinned layout; decided per path for all leaf values.",
             design="7/C01", note="Reference interpreter oracle/refdec.py (written from the property statements) and the pinned layout snapshot are trusted; shapes are each-choice, not all combinations."),
 "C02": dict(text="For every byte string within the length bounds and every explored shape: if decoding accepts (strict, or warn with value warnings only) the re-encoded chunks are exactly the input slices; relational, no model.",
             design="7/C02", note=""),
 "C03": dict(text="Every size field of every explored shape symbolic over its full width (and nested pairs), every byte string up to N for region-bearing real types and for synthetic types nesting regions three deep, and one inductive step of the constraint algebra from an arbitrary pre-state: outcome class, error attributes and emitted events equal the reference semantics.",
             design="7/C03", note="Unit steps assume the representation invariant stated in harness/c03_unit.py and skip lengths <= 4."),
 "C04": dict(text="Every primitive type decoded from every value of its width (accept iff in the pinned set; error attributes; allowed set equal to the pinned one, decided on a fresh symbolic member) and every constrained leaf of the explored shapes symbolic over its width in context.",
             design="7/C04", note=""),
 "C05": dict(text="Every cut point of the explored shapes and streams, appended symbolic suffixes, and every short byte string per type (including empty): depleted / superfluous with exact events, surplus bytes and command code, per the reference interpreter.",
             design="7/C05", note=""),
 "C06": dict(text="Every byte string within the stated length bounds, for the listed types / command codes / flags: strict decoding ends in a documented outcome and pulls no more than the input; decided per execution path for all byte values on it.",
             design="7/C06", note="One known finding (AssertionError in process_response for an inconsistent encryption flag) is filtered by call site."),
 "C07": dict(text="Both modes of the real decoder on the same symbolic input (all byte strings up to N per type; size/value/cut variants of shapes): events before the first warning, the wrapped error's class and details, and accept/no-warning equivalence; relational, no model.",
             design="7/C07", note="Error details are snapshotted when the warning is observed (the constraint object keeps counting afterwards)."),
 "C16": dict(text="Every primitive type, v symbolic over every integer of its width: int/==/ordering against a second symbolic integer, operator delegation in both operand orders (opaque probe operand), big-endian two's-complement bytes, validity iff in the pinned set, text form = pinned member name / named-range offset; all partitions exhaust.",
             design="7/C16", note="hash() is decided only on solver-enumerated boundary points (it concretises its argument)."),
 "C17": dict(text="Every attribute type, v symbolic over the whole word: masks disjoint and covering, every accessor equals the arithmetic definition, the real pretty_attrs rows show exactly the field bits and dots; all partitions exhaust.",
             design="7/C17", note=""),
 "C18": dict(text="Every 32-bit TPM 2.0 response code (reserved high bits symbolic): text form equals the format rule written from the property with pinned name tables; the bit rows partition the word, carry the classification and show the field bits; all partitions exhaust.",
             design="7/C18", note="Bit rows with symbolic reserved bits are decided for one representative low-12-bit pattern per class; for all low 12 bits with reserved bits zero."),
 "C20": dict(text="Value sets and names of all primitive types (full width), selector totality of every union field (symbolic selector through the real process_tpmu), command-code totality and naming (symbolic code) decided by the solver; structural facts and the regenerated layout encoding compared with the pinned snapshot directly.",
             design="7/C20", note="The snapshot oracle/pinned/layout.json is the trusted 'pinned TPM 2.0 layout'; it was taken from the tree after the fix commits and audited as described in DESIGN.md."),
 "C08": dict(text="Warn-mode decode of every byte string up to N for region-bearing types and of size/value variants of shapes: nothing but the two documented value errors aborts, the emitted fields tile the input (resuming at the declared end after an overrun/shortfall), value-only problems equal the lenient reference interpretation with one warning after each offending event.",
             design="7/C08", note="One known finding (AssertionError in process_response, same site as C06) filtered by call site; six warn-mode defects were repaired by fix commits."),
 "C09": dict(text="Stream shapes of 1-2 (thorough 3) generated command/response pairs (sessions, encrypt request on either of two sessions, failed and bad-tag answers, encrypting pairs next to session-less ones), full-range leaves, session attribute bytes and - for parameterless commands - the command code symbolic: the stream decode equals the harness-chained single decodes (response gets the command's code and encrypt request) and events_to_objs yields the single decodes' objects in order.",
             design="7/C09", note=""),
 "C10": dict(text="Explored shapes and streams through a counting iterator: at every event at most one byte beyond the emitted fields was pulled; every cut's events are a prefix containing every complete field; five other source kinds give identical events; the hex front-end pulls no further than the completing character (all texts up to L).",
             design="7/C10", note=""),
 "C11": dict(text="Every generated shape (interval leaves symbolic) and every byte string up to N per structure type: decoder object == object rebuilt from events, both turn back into exactly the decoded events and re-encode to the input; Canonical facade on the concrete shapes.",
             design="7/C11", note=""),
 "C12": dict(text="Histories A,B,A / A stepped-B-A finished-A-B over ordered pairs of commands with encrypted parameter areas, pre-emption point and encrypted bytes symbolic: equal events, equal objects, identical synthesized type, B unaffected, events-to-object comparable; all partitions exhaust.",
             design="7/C12", note="Bounded history length 4, one pre-emption point; the type cache is emptied at the start of every path."),
 "C14": dict(text="Event streams of explored shapes (strict and warn; byte buffers symbolic, one size field or one leaf symbolic) through the real printers with colours off: no exception, rows follow the prescribed event sequence, hex digits and value texts match symbolically, hex columns cover the decoded bytes; events printer one row per event with exact content.",
             design="7/C14", note="Reduced scope: enumerated shapes only; column offsets are taken from the printer's own row template; bit-row content is C17/C18."),
 "C15": dict(text="Hex: every text up to L over all 256 byte values against the stated rule; auto: every 2- and 3-byte magic; pcapng trimming with dpkt stubbed and the size field symbolic one byte at a time; swtpm: documented-layout skeletons with symbolic nibbles/separators and one arbitrary character at a nibble position; Hex/Auto end-to-end on rendered shapes.",
             design="7/C15", note="dpkt's container parsing is outside (stub); in swtpm logs the character 'S' inside a payload is outside the claim (marker resynchronisation, see DESIGN)."),
 "C13": dict(text="Every strict-mode constraint error reached from all byte strings up to N per type and from size/value variants of shapes: emitted bytes + consumed offending bytes + remaining bytes = input, prefix/suffix exact; relational.",
             design="7/C13", note=""),
}
NA = {
 "C19": "process-level observable (argv, file descriptors, stdout/stderr, exit status, dpkt-parsed bundled captures): symbolic data cannot cross the process boundary and the in-process remainder is exactly the library calls decided by C01-C15; see DESIGN.md section 9",
}
PENDING = "check not built yet in this revision of /verif (work in progress; see DESIGN.md section 7)"
ALL = ["C%02d" % i for i in range(1, 21)]

def main():
    checks = []
    for pid in ALL:
        if pid not in CHECKS:
            continue
        c = CHECKS[pid]
        checks.append({
            "property_id": pid,
            "quick_cmd": "./run.sh %s quick" % pid,
            "thorough_cmd": "./run.sh %s thorough" % pid,
            "evidence_file": "/verif/evidence/%s.json" % pid,
            "replay_cmd_template": "./run.sh --replay {path}",
            "engine": "crosshair-z3",
            "level_claimed": {"category": "model_checking", "text": c["text"], "design_ref": c["design"]},
            "level_note": c["note"] + " " + NOTE_COMMON,
            "technique": TECH,
        })
    na = [{"property_id": p, "reason": NA.get(p, PENDING)} for p in ALL if p not in CHECKS]
    m = {
        "version": 1,
        "setup_cmd": "./bootstrap.sh",
        "hooks": {"guard": "TPMSTREAM_VERIF", "enable": "none needed: no hooks in /repo; all adaptations live in /verif/engine as CrossHair patches",
                  "baseline_off_cmd": "cd /repo && /venv/bin/python -m pytest -ra -q -p no:cacheprovider --timeout=900 --continue-on-collection-errors",
                  "source_commits": [], "add_only": True},
        "engines": [{"name": "crosshair-z3", "path": "/verif/engine", "serves_properties": sorted(CHECKS),
                     "kind_free_text": "symbolic execution of CPython bytecode (crosshair-tool 0.0.110) over z3 5.1, own multi-process path explorer, native replay"}],
        "checks": checks,
        "not_applicable": na,
        "notes": "Every check: ./run.sh <id> <tier>; exit 0 / 1 (VIOLATION line) / 3 (harness error, no VIOLATION). Known findings: /verif/known_findings.json.",
    }
    json.dump(m, open(os.path.join(ROOT, "MANIFEST.json"), "w"), indent=1)
    print("checks:", [c["property_id"] for c in checks])

if __name__ == "__main__":
    main()
