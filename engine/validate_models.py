"""Validates the models of engine/chsetup.py against the builtins they replace (DESIGN.md 3.2).

Each model is run through its *symbolic* code path on SymbolicInt/SymbolicBytes wrappers of constant
z3 terms inside stand-alone CrossHair state spaces; the result is realised and compared with the
builtin applied to the same concrete value.  This validates the models, not any property.
"""
import binascii
import random
import sys

from . import chsetup  # noqa
import z3
from crosshair.core import deep_realize, realize
from crosshair.core_and_libs import standalone_statespace
from crosshair.libimpl.builtinslib import SymbolicBytes, SymbolicInt
from crosshair.tracers import NoTracing


def sym(v):
    with NoTracing():
        return SymbolicInt(z3.IntVal(v))


def symbytes(bs):
    items = [sym(b) for b in bs]
    with NoTracing():
        return SymbolicBytes(items)


def main():
    rnd = random.Random(1)
    n = 0
    # B1: int(<=2 bytes, 16): plain Python model, every input of length <= 2
    for a in range(-1, 256):
        for b in range(-1, 256):
            if a < 0 and b >= 0:
                continue
            codes = [c for c in (a, b) if c >= 0]
            try:
                want = int(bytes(codes), 16)
            except ValueError:
                want = None
            try:
                got = chsetup.int16_model(codes)
            except ValueError:
                got = None
            assert got == want, ("B1", codes, got, want)
            n += 1
    # B2/B3: format of symbolic ints
    ints = [0, 1, 9, 10, 15, 16, 255, 256, 4095, 4096, 65535, 65536, 2 ** 31 - 1, 2 ** 31, 2 ** 32 - 1, 2 ** 32, 2 ** 63, 2 ** 64 - 1]
    ints += [2 ** k - 1 for k in range(1, 34, 4)] + [2 ** k for k in range(1, 34, 4)]
    ints += [rnd.randrange(0, 2 ** 32) for _ in range(16)] + [rnd.randrange(0, 2 ** 64) for _ in range(4)]
    specs = ("x", "X", "b", "d", "08x", "02x", "032b", "6x", "<12x", ">12x", "06x", "", "016b")
    for v in ints:
        with standalone_statespace:
            for spec in specs:
                got = deep_realize(chsetup._format_model(sym(v), spec))
                assert got == format(v, spec), ("B2", v, spec, got, format(v, spec))
                n += 1
    # B4 hexlify, B5 translate, B6 containment: all 256 byte values
    table = bytes((c if 32 <= c < 127 else 46) for c in range(256))
    for c in range(256):
        with standalone_statespace:
            h = binascii.hexlify(symbytes([c, 255 - c]))
            t = symbytes([c]).translate(table)
            inhex = symbytes([c]) in chsetup._BytesHaystack(b"0123456789ABCDEF")
            inws = sym(c) in chsetup._BytesHaystack(b" \r\n")
            assert bytes(deep_realize(h)) == binascii.hexlify(bytes([c, 255 - c])), ("B4", c)
            assert bytes(deep_realize(t)) == bytes([c]).translate(table), ("B5", c)
            assert realize(inhex) == (bytes([c]) in b"0123456789ABCDEF"), ("B6", c)
            assert realize(inws) == (c in b" \r\n"), ("B6", c)
            n += 4
    # E4: sym & mask
    masks = [0, 1, 0x3F, 0x7F, 0x80, 0x180, 0x400, 0x700, 0x800, 0xF00, 0xE0, 0x60, 0xFFFFF000, 0x00070006, 0xFFFFFFFF, 0x8000000000000000,
             ~0x00FF0000, ~0, ~1, ~0xFFF, -0x80000000]
    for v in ints[:40]:
        with standalone_statespace:
            for m in masks:
                got = sym(v) & m
                got2 = m & sym(v)
                assert realize(got) == v & m and realize(got2) == v & m, ("E4", v, m)
                n += 2
    # E10: (x << k) | y and ^ with disjoint bits
    for v in ints[:20]:
        for y in (0, 1, 0x7F, 0xFF):
            with standalone_statespace:
                got = (sym(v) << 8) | sym(y)
                got2 = y ^ (sym(v) << 8)
                got3 = sym(v) | 5  # not disjoint in general: falls back to realisation, still correct
                assert realize(got) == (v << 8) | y and realize(got2) == y ^ (v << 8) and realize(got3) == v | 5, ("E10", v, y)
                n += 3
    # B7: to_bytes(from_bytes(bs)) == bs (shortcut for 5..16 bytes, CrossHair's generic model otherwise)
    for ln in (1, 2, 4, 5, 8, 16):
        for _ in range(10):
            bs = bytes(rnd.randrange(256) for _ in range(ln))
            for signed in (False, True):
                with standalone_statespace:
                    v = int.from_bytes(symbytes(bs), "big", signed=signed)
                    out = v.to_bytes(ln, "big", signed=signed)
                    assert realize(v) == int.from_bytes(bs, "big", signed=signed), ("B7", bs)
                    assert bytes(deep_realize(out)) == bs, ("B7", bs, signed)
                    n += 2
    print("models validated: %d comparisons" % n)
    return 0


if __name__ == "__main__":
    sys.exit(main())
