"""The crosshair-free half of the harness API (note / assume / run_native / exc_tag)."""
import importlib
import os
import traceback

REPO_SRC = os.path.realpath(os.environ.get("VERIF_REPO_SRC") or "/repo/src")
NOTES = []
_TRACING_ASSUME = [None]  # set by engine.explore: raises IgnoreAttempt under tracing


class OutsidePartition(Exception):
    pass


def note(key):
    """Record that this path reached the branch `key`."""
    NOTES.append(key)


def assume(cond):
    """Restrict the input space: paths where cond is false are outside the partition."""
    if not cond:
        if _TRACING_ASSUME[0] is not None:
            _TRACING_ASSUME[0]()
        raise OutsidePartition()


def repo_frame(exc):
    tb = traceback.extract_tb(exc.__traceback__)
    for fr in reversed(tb):
        fn = os.path.realpath(fr.filename)
        if fn.startswith(REPO_SRC):
            return "%s:%s" % (os.path.relpath(fn, REPO_SRC + "/tpmstream"), fr.name)
    return "-"


def exc_tag(exc):
    return "exc:%s@%s" % (type(exc).__name__, repo_frame(exc))


def resolve(propname):
    mod, fn = propname.split(":")
    return getattr(importlib.import_module(mod), fn)


def from_jsonable(v):
    if isinstance(v, dict) and set(v) == {"hex"}:
        return bytes.fromhex(v["hex"])
    if isinstance(v, list):
        return [from_jsonable(x) for x in v]
    if isinstance(v, dict):
        return {k: from_jsonable(x) for k, x in v.items()}
    return v


def run_native(propname, cfg, args):
    """Evaluate the property on concrete arguments with plain Python. -> failing tag or None"""
    prop = resolve(propname)
    del NOTES[:]
    try:
        checks = list(prop(cfg, **args))
    except OutsidePartition:
        return None
    except Exception as e:
        return exc_tag(e)
    for tag, cond in checks:
        if not cond:
            return tag
    return None
