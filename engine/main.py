"""Driver: ./run.sh <Cxx> <quick|thorough>   |   ./run.sh --replay <file>

Runs the partitions of one property on all cores, replays counterexamples natively (in a fresh
interpreter without CrossHair), filters known findings, writes /verif/evidence/<id>.json.

Exit codes: 0 property held on everything explored (incomplete partitions are listed, not passed
            off as exhausted);
            1 a counterexample reproduced natively and is not a listed known finding
              (stdout: VIOLATION property=<id> replay=<path>);
            3 harness error (a counterexample that does not reproduce natively, or a crash of the
              machinery) - never a VIOLATION line.
"""
import hashlib
import importlib
import json
import multiprocessing as mp
import os
import subprocess
import sys
import time

ROOT = os.path.dirname(os.path.dirname(os.path.abspath(__file__)))
sys.path.insert(0, ROOT)


def _worker(part):
    from engine.explore import explore

    try:
        return explore(part)
    except BaseException as e:  # noqa
        import traceback

        return {
            "id": part["id"],
            "prop": part["prop"],
            "verdict": "error",
            "reason": "engine crash: %r\n%s" % (e, traceback.format_exc()[-1500:]),
            "paths": 0,
            "confirmed": 0,
            "failures": [],
            "notes": {},
            "samples": [],
            "queries": 0,
            "solver_s": 0,
            "wall_s": 0,
            "cpu_s": 0,
            "unknown": 0,
            "ignored": 0,
            "realizations": 0,
            "adaptations_hit": [],
            "fail_tags": {},
        }


def _worker_batch(batch, deadline):
    out = []
    for part in batch:
        if time.time() > deadline:
            out.append(dict(_worker_skipped(part)))
        else:
            out.append(_worker(part))
    return out


def native_replay(replay_file):
    """Run in a *fresh* interpreter: no crosshair import, tpmstream straight from /repo/src."""
    p = subprocess.run(
        [sys.executable, "-m", "engine.replay", replay_file],
        cwd=ROOT,
        capture_output=True,
        text=True,
        timeout=600,
    )
    out = p.stdout.strip().splitlines()
    last = out[-1] if out else ""
    try:
        return json.loads(last)
    except Exception:
        return {"tag": None, "error": "replay crashed: " + (p.stderr[-800:] or p.stdout[-800:])}


def load_known():
    p = os.path.join(ROOT, "known_findings.json")
    if not os.path.exists(p):
        return []
    return json.load(open(p))["findings"]


def functions_encoded(parts, results):
    """Names of the /repo functions the harnesses execute: collected by profiling one native run
    of each distinct property function on a sample input of this run."""
    from engine.explore import from_jsonable, resolve, OutsidePartition

    seen_props = {}
    for part, res in zip(parts, results):
        if part["prop"] in seen_props or not res.get("samples"):
            continue
        seen_props[part["prop"]] = (part, res["samples"][0]["args"])
    names = set()

    def prof(frame, event, arg):
        if event == "call":
            fn = frame.f_code.co_filename
            root = (os.environ.get("VERIF_REPO_SRC") or "/repo/src").rstrip("/") + "/"
            if fn.startswith(root):
                names.add("%s:%s" % (fn[len(root):], frame.f_code.co_qualname))

    for propname, (part, args) in seen_props.items():
        try:
            f = resolve(propname)
            sys.setprofile(prof)
            try:
                list(f(part.get("cfg", {}), **from_jsonable(args)))
            finally:
                sys.setprofile(None)
        except Exception:
            sys.setprofile(None)
    return sorted(names)


def main(argv):
    if argv and argv[0] == "--replay":
        r = native_replay(argv[1])
        print(json.dumps(r))
        return 1 if r.get("tag") else 0
    pid, tier = argv[0], (argv[1] if len(argv) > 1 else os.environ.get("VERIF_TIER", "quick"))
    seed = int(os.environ.get("VERIF_SEED", "0") or 0)
    t0 = time.time()
    mod = importlib.import_module("harness." + pid.lower())
    try:
        parts = mod.partitions(tier, seed)
    except Exception:
        import traceback

        print("HARNESS-ERROR: could not build the partitions from /repo's current tables:\n" + traceback.format_exc()[-1500:], file=sys.stderr)
        return 3
    n_first = 0
    if tier == "thorough":
        # thorough = every partition of the quick tier first, then the (much larger) thorough space in a
        # seed-rotated order for as long as the wall budget lasts; what is not reached is listed as not run
        first = mod.partitions("quick", seed)
        ids = {p["id"] for p in first}
        parts = first + [p for p in parts if p["id"] not in ids]
        n_first = len(first)
    meta = getattr(mod, "META", {})
    deadline = t0 + float(meta.get("wall_budget_s", {}).get(tier, 280 if tier == "quick" else 1500))
    for p in parts:
        p.setdefault("budget_s", 40)
        p.setdefault("path_timeout_s", 20)
    # batches: a worker process handles several small partitions one after the other (fork + result
    # transfer cost about 0.15 s each); long partitions first
    import random as _random

    order = list(range(len(parts)))
    _random.Random(seed).shuffle(order)  # which partitions a wall-budgeted run reaches rotates with the seed
    if tier == "thorough":
        head = sorted([i for i in order if i < n_first], key=lambda i: -parts[i]["budget_s"])
        order = head + [i for i in order if i >= n_first]
    else:
        order.sort(key=lambda i: -parts[i]["budget_s"])
    nproc = int(os.environ.get("VERIF_JOBS", "16"))
    per_batch = max(1, min(12, len(parts) // (nproc * 6)))
    batches = [order[i:i + per_batch] for i in range(0, len(order), per_batch)]
    results = [None] * len(parts)
    ctx = mp.get_context("fork")
    import engine.explore  # noqa: F401

    warmup()
    with ctx.Pool(processes=nproc, maxtasksperchild=1) as pool:
        pending = {}
        it = iter(range(len(batches)))

        def submit():
            for bi in it:
                if time.time() > deadline:
                    for i in batches[bi]:
                        results[i] = dict(_worker_skipped(parts[i]))
                    continue
                pending[bi] = pool.apply_async(_worker_batch, ([parts[i] for i in batches[bi]], deadline))
                return True
            return False

        for _ in range(nproc):
            if not submit():
                break
        while pending:
            done = [bi for bi, r in pending.items() if r.ready()]
            if not done:
                time.sleep(0.05)
                continue
            for bi in done:
                for i, res in zip(batches[bi], pending.pop(bi).get()):
                    results[i] = res
                submit()
    # ---- failures -> replay -> known-findings filter
    known = [k for k in load_known() if k["property"] == pid]
    os.makedirs(os.path.join(ROOT, "replays", pid), exist_ok=True)
    violations, harness_errors, known_hits = [], [], {}
    seen_sig = set()
    for part, res in zip(parts, results):
        for f in res.get("failures", []):
            sig = (part["prop"], f["tag"])
            kf = match_known(known, part, f)
            if kf is not None:
                known_hits[kf["id"]] = known_hits.get(kf["id"], 0) + 1
                continue
            if sig in seen_sig and len(violations) >= 3:
                continue
            seen_sig.add(sig)
            rec = {"property": pid, "prop": part["prop"], "cfg": part.get("cfg", {}),
                   "args": f["args"], "tag": f["tag"], "partition": part["id"]}
            h = hashlib.sha1(json.dumps(rec, sort_keys=True).encode()).hexdigest()[:12]
            path = os.path.join(ROOT, "replays", pid, "%s-%s.json" % (part["id"].replace("/", "_")[:60], h))
            json.dump(rec, open(path, "w"), indent=1)
            r = native_replay(path)
            if r.get("tag"):
                kf = match_known(known, part, {"tag": r["tag"], "args": f["args"]})
                if kf is not None:
                    known_hits[kf["id"]] = known_hits.get(kf["id"], 0) + 1
                    continue
                violations.append((path, f["tag"], r["tag"]))
            else:
                harness_errors.append((path, f["tag"], r))
    # ---- known findings: replay witnesses natively
    known_lines, stale = [], []
    for k in known:
        if k.get("status") != "known":
            continue
        rec = {"property": pid, "prop": k["prop"], "cfg": k.get("cfg", {}), "args": k["witness"], "tag": k["tag"]}
        path = os.path.join(ROOT, "replays", pid, "known-%s.json" % k["id"])
        json.dump(rec, open(path, "w"), indent=1)
        r = native_replay(path)
        if r.get("tag") and tag_matches(k["tag"], r["tag"]):
            known_lines.append("KNOWN-FINDING: property=%s %s [%s]" % (pid, k["description"], k["id"]))
        else:
            stale.append(k["id"])
    # ---- evidence
    wall = time.time() - t0
    write_evidence(pid, tier, seed, mod, meta, parts, results, violations, harness_errors,
                   known_hits, stale, wall)
    for line in known_lines:
        print(line)
    n_ex = sum(1 for r in results if r["verdict"] == "exhausted")
    print("%s %s: %d partitions, %d exhausted, %d incomplete, %d paths, %d solver queries, %.0fs" % (
        pid, tier, len(parts), n_ex, len(parts) - n_ex, sum(r["paths"] for r in results),
        sum(r["queries"] for r in results), wall))
    for r in results:
        if r["verdict"] == "error":
            print("ENGINE-ERROR partition=%s %s" % (r["id"], r["reason"][:600]), file=sys.stderr)
    if violations:
        for path, tag, rtag in violations:
            print("VIOLATION property=%s replay=%s" % (pid, path))
            print("  failed condition: %s" % rtag)
        return 1
    if harness_errors:
        for path, tag, r in harness_errors:
            print("HARNESS-ERROR (counterexample does not reproduce natively) %s tag=%s native=%s" % (path, tag, r), file=sys.stderr)
        return 3
    if any(r["verdict"] == "error" for r in results):
        return 3
    return 0


def warmup():
    """One tiny exploration in the parent: CrossHair, z3 and tpmstream fill their lazy caches once
    (about 6 s) instead of once per forked worker."""
    from engine.explore import explore
    import harness.spaces as sp

    k = [k for k in sp.struct_keys() if k.endswith(":TPM2B_DIGEST")][0]
    for prop in ("harness.props:strict_ref", "harness.props:warn_vs_strict"):
        explore(sp.S(prop, "warmup", k, 3, budget=20))
    c = sp.gen().commands(sp.cc_list()[0], minimal=True)[1][1]
    explore(sp.M("harness.props:strict_ref", "warmup", sp.cmd_key(), "c", c, [len(c) - 1], budget=20))


def _worker_skipped(part):
    return {"id": part["id"], "prop": part["prop"], "verdict": "incomplete",
            "reason": "not run: wall budget of the check reached", "paths": 0, "confirmed": 0,
            "failures": [], "notes": {}, "samples": [], "queries": 0, "solver_s": 0, "wall_s": 0,
            "cpu_s": 0, "unknown": 0, "ignored": 0, "realizations": 0, "adaptations_hit": [],
            "fail_tags": {}}


def tag_matches(pattern, tag):
    import fnmatch

    return fnmatch.fnmatchcase(tag, pattern)


def match_known(known, part, failure):
    for k in known:
        if k.get("status") != "known":
            continue
        if k.get("prop") and k["prop"] != part["prop"] and not k.get("any_prop"):
            continue
        if not tag_matches(k["tag"], failure["tag"]):
            continue
        return k
    return None


def write_evidence(pid, tier, seed, mod, meta, parts, results, violations, harness_errors,
                   known_hits, stale, wall):
    paths = sum(r["paths"] for r in results)
    nontrivial = sum(r["notes"].get("_checked", 0) for r in results)
    note_totals = {}
    for r in results:
        for k, v in r["notes"].items():
            note_totals[k] = note_totals.get(k, 0) + v
    samples = []
    for part, r in zip(parts, results):
        for s in r.get("samples", [])[:1]:
            samples.append({"partition": part["id"], "args": s["args"], "notes": s["notes"]})
    step = max(1, len(samples) // 12)
    samples = samples[::step][:12]
    try:
        fenc = functions_encoded(parts, results)
    except Exception as e:  # informational only
        fenc = ["<profiling failed: %r>" % (e,)]
    hit = sorted({a for r in results for a in r.get("adaptations_hit", [])})
    ev = {
        "property_id": pid,
        "tier": tier,
        "seed": seed,
        "level": "model_checking",
        "wall_s": round(wall, 1),
        "violations": len(violations),
        "coverage": {
            "evaluations": paths,
            "distinct_nontrivial": nontrivial,
            "rule": "evaluations = execution paths explored symbolically (each path is a distinct "
                    "sequence of branch decisions and stands for every input value satisfying its "
                    "path condition; z3 decides each condition of the property for all of them). "
                    "distinct_nontrivial = paths that reached the property's assertions with a "
                    "non-empty condition list (paths that end in an outcome the property says "
                    "nothing about are not counted). " + meta.get("rule", ""),
            "samples": samples or [{"note": "no path completed"}],
            "exhaustive": all(r["verdict"] == "exhausted" for r in results),
            "bounds": meta.get("bounds", {}).get(tier, meta.get("bounds", "")),
            "outside_claim": meta.get("outside", ""),
            "partitions_total": len(parts),
            "partitions_exhausted": sum(1 for r in results if r["verdict"] == "exhausted"),
            "partitions_incomplete": [
                {"id": r["id"], "reason": r.get("reason", ""), "paths": r["paths"]}
                for r in results if r["verdict"] != "exhausted"
            ][:200],
            "paths_confirmed": sum(r["confirmed"] for r in results),
            "paths_outside_precondition": sum(r["ignored"] for r in results),
            "paths_unknown": sum(r["unknown"] for r in results),
            "concretisations": sum(r["realizations"] for r in results),
            "solver": "z3 %s via crosshair-tool 0.0.110" % _z3v(),
            "queries": sum(r["queries"] for r in results),
            "solver_time_s": round(sum(r["solver_s"] for r in results), 1),
            "cpu_s": round(sum(r["cpu_s"] for r in results), 1),
            "branches_reached": note_totals,
            "functions_encoded": fenc,
            "models_and_stubs_hit": hit,
            "known_findings_hit": known_hits,
            "known_findings_stale": stale,
            "harness_errors": [list(map(str, h)) for h in harness_errors],
            "violations": [{"replay": v[0], "tag": v[2]} for v in violations],
            "partitions": [
                {"id": r["id"], "verdict": r["verdict"], "paths": r["paths"], "cpu_s": r["cpu_s"],
                 "queries": r["queries"]} for r in results
            ][:400],
        },
        "assumptions": meta.get("assumptions", []) + [
            "CrossHair's models of Python ints/bytes/str/tuples and z3's decision are trusted; "
            "counterexamples are replayed natively before being reported",
            "adaptations and models of DESIGN.md section 3 (those hit are listed in "
            "coverage.models_and_stubs_hit), validated by engine/validate_models.py at setup",
        ],
    }
    os.makedirs(os.path.join(ROOT, "evidence"), exist_ok=True)
    json.dump(ev, open(os.path.join(ROOT, "evidence", pid + ".json"), "w"), indent=1)


def _z3v():
    import z3

    return z3.get_version_string()


if __name__ == "__main__":
    sys.exit(main(sys.argv[1:]))
