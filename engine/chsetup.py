"""Adaptations of CrossHair 0.0.110 needed to execute joholl/tpmstream symbolically.

Importing this module installs them (DESIGN.md section 3.1 / 3.2):

 E1  int(obj)         -> obj's pure-Python __int__  (tpmstream numeric emulation)
 E2  range(obj, ..)   -> obj's pure-Python __index__
 E3  fnutil.set_first_arg_type tolerates zero-argument callables
 E4  SymbolicInt & mask (concrete mask; negative masks as x - (x & ~mask)): exact div/mod decomposition
 E5  inspect.getmembers on concrete classes runs untraced
 E6  format(obj, spec) -> obj's pure-Python __format__
 E7  no short-circuiting of contract-bearing callees
 E10 x | y, x ^ y with provably disjoint bits -> x + y
 E11 functools.lru_cache really caches (CrossHair skips it)
 B1  int(<=2 bytes, 16) traced-Python model
 B2  format(symbolic int, x/X/b/d specs) with symbolic digits
 B3  format(symbolic str, <N >N ^N)
 B4  binascii.hexlify(symbolic bytes)
 B5  bytes.translate(concrete table)
 B6  1-byte symbolic needle `in` concrete bytes

Every model is validated against the builtin it replaces by engine/validate_models.py.
Nothing here touches /repo; all of it is only active while CrossHair's tracer is on.
"""
import binascii
import dis
import inspect
import re
import sys
import types

import crosshair.core_and_libs  # noqa: F401  (registers CrossHair's own patches first)
import crosshair.core as _core
import crosshair.fnutil as _fnutil
import z3
from crosshair.core import _PATCH_REGISTRATIONS, realize, register_opcode_patch
from crosshair.libimpl.builtinslib import (
    AnySymbolicStr,
    BytesLike,
    LazyIntSymbolicStr,
    SymbolicBytes,
    SymbolicInt,
)
from crosshair.statespace import context_statespace
from crosshair.tracers import (
    NoTracing,
    ResumedTracing,
    TracingModule,
    frame_stack_read,
    frame_stack_write,
)
from crosshair.util import CrossHairValue

HIT = set()  # names of adaptations that were actually exercised (reported in evidence)
_MISSING = object()


def _user_method(val, name):
    """Pure-Python method `name` defined by a tpmstream class for a concrete (non-CrossHair) object."""
    t = type(val)
    if isinstance(val, CrossHairValue):
        return None
    if not getattr(t, "__module__", "").startswith(("tpmstream", "harness", "oracle")):
        return None
    f = getattr(t, name, None)
    return f if isinstance(f, types.FunctionType) else None


# ---------------------------------------------------------------- E1 + B1: int()
_orig_int = _PATCH_REGISTRATIONS[int]
_depth = [0]
_WS = (9, 10, 11, 12, 13, 32)


def _hexdigit(c):
    if 48 <= c <= 57:
        return c - 48
    if 97 <= c <= 102:
        return c - 87
    if 65 <= c <= 70:
        return c - 55
    return None


def int16_model(codes):
    """int(bytes(codes), 16) for len(codes) <= 2, in traced Python so that codes may be symbolic.
    (No '0x' prefix / '_' separators are possible within two characters except via digits.)"""
    cs = list(codes)
    while cs and cs[0] in _WS:
        cs = cs[1:]
    while cs and cs[-1] in _WS:
        cs = cs[:-1]
    sign = 1
    if cs and (cs[0] == 43 or cs[0] == 45):
        if cs[0] == 45:
            sign = -1
        cs = cs[1:]
    if not cs:
        raise ValueError("invalid literal for int() with base 16")
    acc = 0
    for c in cs:
        d = _hexdigit(c)
        if d is None:
            raise ValueError("invalid literal for int() with base 16")
        acc = acc * 16 + d
    return sign * acc


def _int(val=0, base=_MISSING):
    if _depth[0] > 0:
        with NoTracing():
            return int(val) if base is _MISSING else int(val, base)
    if base is _MISSING:
        f = None
        with NoTracing():
            if type(val) is not int:
                f = _user_method(val, "__int__")
        if f is not None:
            HIT.add("E1")
            return f(val)
    else:
        with NoTracing():
            sym_bytes = isinstance(val, SymbolicBytes)
            b16 = type(base) is int and base == 16
        if sym_bytes and b16 and len(val) <= 2:
            HIT.add("B1")
            return int16_model([c for c in val])
    _depth[0] += 1
    try:
        return _orig_int(val) if base is _MISSING else _orig_int(val, base)
    finally:
        _depth[0] -= 1


_PATCH_REGISTRATIONS[int] = _int

# ---------------------------------------------------------------- E2: range()
_orig_range = _PATCH_REGISTRATIONS[range]


def _idx(x):
    with NoTracing():
        f = None if type(x) is int else _user_method(x, "__index__")
    if f is not None:
        HIT.add("E2")
        return f(x)
    return x


def _range(*a):
    return _orig_range(*[_idx(x) for x in a])


_PATCH_REGISTRATIONS[range] = _range

# ---------------------------------------------------------------- E3
_orig_sfat = _fnutil.set_first_arg_type


def _sfat(sig, first_arg_type):
    if not sig.parameters:
        return sig
    return _orig_sfat(sig, first_arg_type)


_fnutil.set_first_arg_type = _sfat


# ---------------------------------------------------------------- E4: sym & mask
def _runs(mask):
    runs, i = [], 0
    while mask >> i:
        if (mask >> i) & 1:
            j = i
            while (mask >> j) & 1:
                j += 1
            runs.append((i, j))
            i = j
        else:
            i += 1
    return runs


_orig_and = SymbolicInt.__and__


def _and(self, other):
    with NoTracing():
        if type(other) is int:
            space = context_statespace()
            if space.smt_fork(self.var >= 0, probability_true=0.9):
                HIT.add("E4")
                # a negative mask clears the bits of ~mask: x & m == x - (x & ~m) for x >= 0
                acc = z3.IntVal(0)
                for lo, hi in _runs(other if other >= 0 else ~other):
                    acc = acc + (
                        (self.var / z3.IntVal(2**lo)) % z3.IntVal(2 ** (hi - lo))
                    ) * z3.IntVal(2**lo)
                return SymbolicInt(acc if other >= 0 else self.var - acc)
    return _orig_and(self, other)


SymbolicInt.__and__ = _and
SymbolicInt.__rand__ = lambda self, other: _and(self, other)

# ---------------------------------------------------------------- E5: inspect.getmembers
_orig_getmembers = inspect.getmembers


def _getmembers(obj, predicate=None):
    with NoTracing():
        if isinstance(obj, type) and not isinstance(obj, CrossHairValue):
            HIT.add("E5")
            return _orig_getmembers(obj, predicate)
    return _orig_getmembers(obj, predicate)


_PATCH_REGISTRATIONS[inspect.getmembers] = _getmembers

# ---------------------------------------------------------------- B4: hexlify


def _hexchar(n):  # n: z3 Int 0..15 -> code point of lower-case hex digit
    return z3.If(n < 10, n + 48, n + 87)


def _hexlify(data, *a):
    with NoTracing():
        ints = None
        if isinstance(data, SymbolicBytes) and not a:
            try:
                ints = list(data.inner)
            except Exception:
                ints = None
    if ints is None:
        with NoTracing():
            return binascii.hexlify(realize(data), *a)
    with NoTracing():
        HIT.add("B4")
        out = []
        for b in ints:
            if isinstance(b, SymbolicInt):
                out.append(SymbolicInt(_hexchar(b.var / 16)))
                out.append(SymbolicInt(_hexchar(b.var % 16)))
            else:
                out.extend(binascii.hexlify(bytes([b])))
        return SymbolicBytes(out)


_PATCH_REGISTRATIONS[binascii.hexlify] = _hexlify

# ---------------------------------------------------------------- B2/B3/E6: format()
_SPEC = re.compile(r"^(?:(.)?([<>^]))?(0)?(\d+)?([xXbd])?$")
_prev_format = _PATCH_REGISTRATIONS[format]


# files of /repo in which every formatting of a value builds the text of an exception message
_MESSAGE_ONLY_FILES = ("tpmstream/common/error.py", "tpmstream/io/hex/marshal.py", "tpmstream/io/swtpm_log/marshal.py")


def _in_error_message():
    """True iff the innermost non-engine frame is an error constructor in tpmstream/common/error.py"""
    f = sys._getframe(2)
    for _ in range(8):
        if f is None:
            return False
        fn = f.f_code.co_filename
        if fn.endswith(_MESSAGE_ONLY_FILES):
            return True
        if "/crosshair/" in fn or fn.endswith("engine/chsetup.py"):
            f = f.f_back
            continue
        return False
    return False


def _format_model(obj, spec=""):
    with NoTracing():
        if isinstance(obj, (SymbolicInt, AnySymbolicStr, SymbolicBytes)) and _in_error_message():
            # M1: the *text* of an error message is abstracted where it depends on symbolic values
            # (no property observes it); the constructor itself and its attributes stay real.
            HIT.add("M1")
            return "?"
        if type(spec) is str and spec == "" and isinstance(obj, SymbolicInt):
            dec = True
        else:
            dec = False
    if dec:
        HIT.add("B2")
        return obj.__repr__()  # CrossHair's symbolic decimal digits (forks on the digit count only)
    with NoTracing():
        m = _SPEC.match(spec) if type(spec) is str else None
        kind = None
        if m is not None and spec != "":
            fill, align, zero, width, ty = m.groups()
            width = int(width) if width else 0
            if isinstance(obj, AnySymbolicStr) and ty is None and not zero:
                kind = "str"
            elif isinstance(obj, SymbolicInt) and ty in ("x", "X", "b", "d"):
                kind = "int"
    if kind == "str":
        n = len(obj)
        with NoTracing():
            HIT.add("B3")
            pad = max(0, width - realize(n))
            fill = fill or " "
        if (align or "<") == "<":
            return obj + fill * pad
        if align == ">":
            return fill * pad + obj
        return fill * (pad // 2) + obj + fill * (pad - pad // 2)
    if kind == "int":
        base = {"b": 2, "d": 10}.get(ty, 16)
        if obj < 0:
            return _prev_format(obj, spec)
        nd = 1
        while not (obj < base**nd):
            nd += 1
        with NoTracing():
            HIT.add("B2")
            cps = []
            for i in range(nd - 1, -1, -1):
                d = (obj.var / (base**i)) % base
                if ty == "X":
                    cps.append(SymbolicInt(z3.If(d < 10, d + 48, d + 55)))
                else:
                    cps.append(SymbolicInt(_hexchar(d)))
            s = LazyIntSymbolicStr(cps)
            padn = max(0, width - nd)
            padc = "0" if zero else (fill or " ")
        if padn:
            if zero or (align or ">") == ">":
                s = padc * padn + s
            elif align == "<":
                s = s + padc * padn
            else:
                s = padc * (padn // 2) + s + padc * (padn - padn // 2)
        return s
    return _prev_format(obj, spec)


def _format(obj, spec=""):
    f = g = None
    with NoTracing():
        t = type(obj)
        if t is not str and t is not int:
            f = _user_method(obj, "__format__")
            if f is None and type(spec) is str and spec == "" and getattr(t, "__format__", None) is object.__format__:
                # object.__format__(x, "") is str(x)
                g = _user_method(obj, "__str__")
    if f is not None:
        HIT.add("E6")
        return f(obj, spec)
    if g is not None:
        HIT.add("E6")
        return g(obj)
    with NoTracing():
        exc_text = (isinstance(obj, BaseException) and type(spec) is str and spec == ""
                    and type(obj).__str__ is BaseException.__str__ and len(obj.args) == 1
                    and isinstance(obj.args[0], (str, AnySymbolicStr)))
    if exc_text:
        # str(exception) is its single message argument
        HIT.add("E6")
        return obj.args[0]
    return _format_model(obj, spec)


_PATCH_REGISTRATIONS[format] = _format

_orig_si_format = SymbolicInt.__format__


def _si_format(self, spec):
    if spec == "" or spec is None:
        return self.__str__()
    return _format_model(self, spec)


SymbolicInt.__format__ = _si_format

# ---------------------------------------------------------------- B5: bytes.translate
_orig_translate = BytesLike.translate


def _translate(self, table, delete=b""):
    with NoTracing():
        ok = isinstance(table, (bytes, bytearray)) and len(table) == 256 and not delete
        if ok:
            HIT.add("B5")
            segs = []
            s = 0
            while s < 256:
                if table[s] == s:
                    j = s
                    while j < 256 and table[j] == j:
                        j += 1
                    segs.append((s, j, None))
                else:
                    j = s
                    while j < 256 and table[j] == table[s] and table[j] != j:
                        j += 1
                    segs.append((s, j, table[s]))
                s = j

            def sel(x):
                e = z3.IntVal(0)
                for lo, hi, val in reversed(segs):
                    e = z3.If(
                        z3.And(x >= lo, x < hi), x if val is None else z3.IntVal(val), e
                    )
                return e

            out = []
            for c in self._ch_codepoints if hasattr(self, "_ch_codepoints") else list(self.inner):
                if isinstance(c, SymbolicInt):
                    out.append(SymbolicInt(sel(c.var)))
                else:
                    out.append(table[c])
            return SymbolicBytes(out)
    return _orig_translate(self, table, delete)


BytesLike.translate = _translate

# ---------------------------------------------------------------- B6: needle in concrete bytes
CONTAINS_OP = dis.opmap["CONTAINS_OP"]


class _BytesHaystack:
    def __init__(self, hay):
        self.hay = hay

    def __contains__(self, needle):
        with NoTracing():
            one = isinstance(needle, SymbolicBytes) and len(needle.inner) == 1
            isint = isinstance(needle, SymbolicInt)
        if one or isint:
            HIT.add("B6")
            c = needle[0] if one else needle
            return any([c == h for h in sorted(set(self.hay))])
        with NoTracing():
            return realize(needle) in self.hay


class BytesContainment(TracingModule):
    opcodes_wanted = frozenset([CONTAINS_OP])

    def trace_op(self, frame, codeobj, codenum):
        item = frame_stack_read(frame, -2)
        if not isinstance(item, CrossHairValue):
            return
        container = frame_stack_read(frame, -1)
        if type(container) is bytes:
            frame_stack_write(frame, -1, _BytesHaystack(container))


register_opcode_patch(BytesContainment())

# ---------------------------------------------------------------- E7: no short-circuiting
_core.ShortCircuitingContext.make_interceptor = lambda self, original: original

# ---------------------------------------------------------------- B7: to_bytes(from_bytes(bs)) == bs
# z3 answers `unknown` when asked to invert the 8-byte polynomial of int.from_bytes through the
# div/mod terms of CrossHair's to_bytes model.  The identity
#     int.from_bytes(bs, order, signed=s).to_bytes(len(bs), order, signed=s) == bs
# lets to_bytes return the original byte terms when (and only when) it is applied to the very
# term from_bytes produced, with the same length, byte order and signedness.  Anything else
# (other width, other signedness, arithmetic on the value) takes CrossHair's generic model.
# Applied to 2..16 bytes: 4-byte handles under negated interval constraints cost 10 s per query otherwise.
import crosshair.libimpl.builtinslib as _bl


class _FromBytesMap(dict):
    def __init__(self, solver):
        super().__init__()


_orig_from_bytes = _PATCH_REGISTRATIONS[int.from_bytes]


def _from_bytes(b, byteorder="big", *, signed=False):
    val = _orig_from_bytes(b, byteorder, signed=signed)
    with NoTracing():
        if isinstance(val, SymbolicInt) and type(byteorder) is str and type(signed) is bool:
            try:
                items = list(b.inner) if isinstance(b, SymbolicBytes) else list(b)
            except Exception:
                items = None
            if items is not None and 2 <= len(items) <= 16:
                m = context_statespace().extra(_FromBytesMap)
                m[val.var.get_id()] = (val.var, items, byteorder, signed)
    return val


_PATCH_REGISTRATIONS[int.from_bytes] = _from_bytes

_orig_to_bytes = SymbolicInt.to_bytes


def _to_bytes(self, length=1, byteorder="big", *, signed=False):
    with NoTracing():
        hit = None
        if type(length) is int and type(byteorder) is str and type(signed) is bool:
            rec = context_statespace().extra(_FromBytesMap).get(self.var.get_id())
            if rec is not None and rec[0].eq(self.var) and len(rec[1]) == length and rec[2] == byteorder and rec[3] == signed:
                hit = rec[1]
        if hit is not None:
            HIT.add("B7")
            return SymbolicBytes(list(hit))
    return _orig_to_bytes(self, length, byteorder, signed=signed)


SymbolicInt.to_bytes = _to_bytes

# ---------------------------------------------------------------- E8: defaultdict[symbolic key]
# CrossHair fans a symbolic key out over the entries of a plain dict, but not of a defaultdict:
# there CPython hashes the key natively (concretising it) and, on a miss, *inserts the symbolic
# object itself* into the module-level table (tpmstream's TPM_RC name tables are defaultdicts),
# which leaks symbolic values into later paths.  Model: fan out over the existing entries; on a
# miss return default_factory() without inserting (insertion only affects later look-ups of the
# same key, which yield the same default).
import collections
from crosshair.libimpl.builtinslib import AtomicSymbolicValue
from crosshair.opcode_intercept import BINARY_SUBSCR, MultiSubscriptableContainer

BINARY_OP = dis.opmap.get("BINARY_OP", 256)


class _DefaultDictView:
    def __init__(self, dd):
        self.dd = dd

    def __getitem__(self, key):
        with NoTracing():
            plain = dict(self.dd)
            factory = self.dd.default_factory
        HIT.add("E8")
        try:
            return MultiSubscriptableContainer(plain)[key]
        except KeyError:
            if factory is None:
                raise
            return factory()


class DefaultDictSubscript(TracingModule):
    opcodes_wanted = frozenset([BINARY_SUBSCR, BINARY_OP])

    def trace_op(self, frame, codeobj, codenum):
        if codenum == BINARY_OP:
            if frame.f_code.co_code[frame.f_lasti + 1] != 26:
                return
        key = frame_stack_read(frame, -1)
        if not isinstance(key, AtomicSymbolicValue):
            return
        container = frame_stack_read(frame, -2)
        if type(container) is collections.defaultdict:
            frame_stack_write(frame, -2, _DefaultDictView(container))


register_opcode_patch(DefaultDictSubscript())

# ---------------------------------------------------------------- E9: getattr(obj, concrete name)
# CrossHair's getattr patch looks the attribute up with tracing switched off, so a pure-Python
# descriptor (tpm_bitfield's Bit.__get__) would run untraced on symbolic data.  With a concrete
# name the builtin is simply called with tracing on.
_prev_getattr = _PATCH_REGISTRATIONS[getattr]


def _getattr(obj, name, *default):
    if type(name) is str:
        HIT.add("E9")
        return getattr(obj, name, *default)
    return _prev_getattr(obj, name, *default)


_PATCH_REGISTRATIONS[getattr] = _getattr


# M1 (continued): str(symbolic bytes) inside the message-only files (swtpm/hex front-ends build their
# ValueError texts with "%s" % str(b))
_prev_str = _PATCH_REGISTRATIONS[str]


_str_depth = [0]


def _str_m1(*a):
    if _str_depth[0] > 0:
        # re-entered from CrossHair's own str patch (its fall-through `str(*a)` for 0 or >= 2 arguments)
        with NoTracing():
            return str(*a)
    with NoTracing():
        hit = len(a) == 1 and isinstance(a[0], SymbolicBytes) and _in_error_message()
    if hit:
        HIT.add("M1")
        return "?"
    _str_depth[0] += 1
    try:
        return _prev_str(*a)
    finally:
        _str_depth[0] -= 1


_PATCH_REGISTRATIONS[str] = _str_m1

# ---------------------------------------------------------------- E10: `x | y` / `x ^ y` with disjoint bits
# CrossHair realises both operands of `|` and `^`.  Code that assembles an integer with
# `(value << 8) | byte` would enumerate every byte value.  When the solver agrees that, for some
# k in {8, 16, 32}, one operand is a non-negative multiple of 2^k and the other lies in [0, 2^k), the
# two have no bit in common and `|` and `^` are both `+`.  (An int2bv/bv2int encoding of the
# general case was tried and z3 answers unknown on it; anything else keeps CrossHair's realisation.)
_orig_or = SymbolicInt.__or__
_orig_xor = SymbolicInt.__xor__


def _bitop(self, other, orig):
    with NoTracing():
        b = None
        if isinstance(other, SymbolicInt):
            b = other.var
        elif type(other) is int and other >= 0:
            b = z3.IntVal(other)
        if b is not None:
            a = self.var
            space = context_statespace()
            for hi, lo in ((a, b), (b, a)):
                for k in (8, 16, 32):
                    cond = z3.And(hi >= 0, hi % (2**k) == 0, lo >= 0, lo < 2**k)
                    if space.smt_fork(cond, probability_true=0.95):
                        HIT.add("E10")
                        return SymbolicInt(hi + lo)
    return orig(self, other)


SymbolicInt.__or__ = lambda self, other: _bitop(self, other, _orig_or)
SymbolicInt.__ror__ = lambda self, other: _bitop(self, other, _orig_or)
SymbolicInt.__xor__ = lambda self, other: _bitop(self, other, _orig_xor)
SymbolicInt.__rxor__ = lambda self, other: _bitop(self, other, _orig_xor)

# ---------------------------------------------------------------- E11: lru_cache is executed, not skipped
# CrossHair calls the function under an lru_cache directly (no hashing of symbolic arguments, no state
# across paths).  That hides every defect of a memo (wrong key, eviction) from the analysis.  The real
# cache runs here instead: hashing a symbolic key realises it (a stated concretisation), and
# engine/explore.py empties caches that a path filled before the next path starts.
import functools as _functools

_PATCH_REGISTRATIONS.pop(_functools._lru_cache_wrapper.__call__, None)
