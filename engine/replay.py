"""Native replay of a counterexample: plain Python, no CrossHair import, tpmstream from /repo/src.
Prints one JSON line {"tag": <failing condition or null>}; exit 1 iff the property fails."""
import json
import os
import sys

sys.path.insert(0, os.path.dirname(os.path.dirname(os.path.abspath(__file__))))
os.environ["VERIF_NATIVE"] = "1"


def main():
    rec = json.load(open(sys.argv[1]))
    from engine.native import from_jsonable, run_native

    tag = run_native(rec["prop"], rec.get("cfg", {}), from_jsonable(rec["args"]))
    assert "crosshair" not in sys.modules
    print(json.dumps({"tag": tag}))
    return 1 if tag else 0


if __name__ == "__main__":
    sys.exit(main())
