"""Path exploration of one partition with CrossHair's state space + z3 (DESIGN.md section 2, 6.1).

A *property function* is an ordinary Python function

    prop(cfg, **symbolic_args) -> list[(tag, condition)]

that runs the real tpmstream code on its (symbolic) arguments and returns the conditions the
property demands.  Conditions may be symbolic booleans; the engine asks the solver, per path,
whether the negation of each condition is satisfiable.  If it is, the solver's model is the
counterexample.  `assume(c)` restricts the input space (the path is ignored where c is false),
`note(k)` records which interesting branch a path reached (for the non-triviality count).

Verdict of a partition:
  exhausted      every feasible path was executed and decided, none hit a timeout / unknown
  incomplete     budget, path timeout, solver unknown, unsupported operation (never a pass)
plus the list of failing paths (tag, concrete arguments).  Failing paths do not stop the search.
"""
import os
import signal
import sys
import time
import traceback
from time import process_time

from . import chsetup  # noqa: F401  (installs the adaptations)

import z3
from crosshair.core import (
    ExceptionFilter,
    Patched,
    deep_realize,
    proxy_for_type,
    suspected_proxy_intolerance_exception,
)
from crosshair.condition_parser import condition_parser
from crosshair.options import DEFAULT_OPTIONS
from crosshair.libimpl.builtinslib import SymbolicBytes, SymbolicInt, LazyIntSymbolicStr
from crosshair.statespace import (
    CallAnalysis,
    RootNode,
    StateSpace,
    StateSpaceContext,
    VerificationStatus,
    context_statespace,
)
from crosshair.tracers import COMPOSITE_TRACER, NoTracing, ResumedTracing, is_tracing
from crosshair.util import (
    CrossHairInternal,
    CrosshairUnsupported,
    IgnoreAttempt,
    NotDeterministic,
    UnexploredPath,
)

REPO_SRC = os.path.realpath(os.environ.get("VERIF_REPO_SRC") or "/repo/src")

# ---------------------------------------------------------------- solver statistics
STATS = {"queries": 0, "solver_s": 0.0, "realizations": 0}
_orig_check = z3.Solver.check


def _check(self, *a):
    t = time.perf_counter()
    try:
        return _orig_check(self, *a)
    finally:
        STATS["queries"] += 1
        STATS["solver_s"] += time.perf_counter() - t


z3.Solver.check = _check

_orig_fmv = StateSpace.find_model_value


def _fmv(self, expr, *a, **k):
    if not self.is_detached:
        STATS["realizations"] += 1
        if os.environ.get("VERIF_DEBUG_REALIZE"):
            with NoTracing():
                st = [f for f in traceback.extract_stack() if "/repo/" in f.filename or "/verif/harness" in f.filename or "/verif/oracle" in f.filename]
                print("REALIZE", expr, "at", ["%s:%d:%s" % (os.path.basename(f.filename), f.lineno, f.name) for f in st[-4:]], file=sys.stderr)
    return _orig_fmv(self, expr, *a, **k)


StateSpace.find_model_value = _fmv

# ---------------------------------------------------------------- harness-side helpers
from .native import (  # noqa: E402
    NOTES,
    OutsidePartition,
    _TRACING_ASSUME,
    assume,
    exc_tag,
    from_jsonable,
    note,
    repo_frame,
    resolve,
    run_native,
)


def _tracing_assume():
    if is_tracing():
        raise IgnoreAttempt("assumption")


_TRACING_ASSUME[0] = _tracing_assume


# ---------------------------------------------------------------- symbolic arguments
def make_args(symspec, space):
    """symspec: list of [name, kind, ...]
    ["b", "bytes", N]            N symbolic bytes
    ["v", "int", lo, hi]         symbolic int, lo <= v < hi
    ["s", "ascii", N]            str of N symbolic code points 0..127
    ["b", "template", hex, [i..]] the bytes of `hex` with the listed positions symbolic
    """
    args = {}
    for spec in symspec:
        name, kind = spec[0], spec[1]
        if kind == "bytes":
            vals = []
            for i in range(spec[2]):
                v = z3.Int("%s_%d%s" % (name, i, space.uniq()))
                space.add(z3.And(v >= 0, v < 256))
                vals.append(SymbolicInt(v))
            args[name] = SymbolicBytes(vals)
        elif kind == "template":
            # concrete bytes with designated free positions symbolic
            base = bytes.fromhex(spec[2])
            free = set(spec[3])
            vals = []
            for i, c in enumerate(base):
                if i in free:
                    v = z3.Int("%s_%d%s" % (name, i, space.uniq()))
                    space.add(z3.And(v >= 0, v < 256))
                    vals.append(SymbolicInt(v))
                else:
                    vals.append(c)
            args[name] = SymbolicBytes(vals)
        elif kind == "int":
            v = z3.Int("%s%s" % (name, space.uniq()))
            space.add(z3.And(v >= spec[2], v < spec[3]))
            args[name] = SymbolicInt(v)
        elif kind == "ascii":
            vals = []
            for i in range(spec[2]):
                v = z3.Int("%s_%d%s" % (name, i, space.uniq()))
                space.add(z3.And(v >= 0, v < 128))
                vals.append(SymbolicInt(v))
            args[name] = LazyIntSymbolicStr(vals)
        else:
            raise ValueError(kind)
    return args


def _jsonable(v):
    if isinstance(v, (bytes, bytearray)):
        return {"hex": bytes(v).hex()}
    if isinstance(v, (list, tuple)):
        return [_jsonable(x) for x in v]
    if isinstance(v, dict):
        return {k: _jsonable(x) for k, x in v.items()}
    return v


# ---------------------------------------------------------------- one path
def _run_path(prop, cfg, args):
    """Runs under tracing. Returns failing tag or None."""
    del NOTES[:]
    try:
        checks = prop(cfg, **args)
    except OutsidePartition:
        raise IgnoreAttempt("outside")
    except Exception as e:  # CrossHair's control-flow exceptions are BaseException: not caught
        with NoTracing():
            if suspected_proxy_intolerance_exception(e):
                raise CrosshairUnsupported("proxy intolerance: %r" % (e,))
            return exc_tag(e)
    if checks:
        NOTES.append("_checked")
    for tag, cond in checks:
        if not cond:
            return tag
    return None


# ---------------------------------------------------------------- isolation of paths from each other
# Every path must start from the same program state.  Mutable default arguments of tpmstream functions
# (a classic way for state to leak from one decode into the next) are restored to a pristine copy before
# each path: a leak then shows up *inside* a path - where the harnesses observe it as a property failure -
# instead of carrying symbolic values of a finished path into the next one (which crashes CrossHair).
_PRISTINE_DEFAULTS = None


def _mutable(x):
    return isinstance(x, (list, dict, set, bytearray))


def _scan_defaults():
    import copy
    import inspect
    import types

    out = []
    seen = set()
    for name, mod in list(sys.modules.items()):
        if not name.startswith("tpmstream") or mod is None:
            continue
        objs = list(vars(mod).values())
        for o in list(objs):
            if inspect.isclass(o) and getattr(o, "__module__", "").startswith("tpmstream"):
                objs.extend(vars(o).values())
        for o in objs:
            f = getattr(o, "__func__", o)
            if not isinstance(f, types.FunctionType) or id(f) in seen:
                continue
            seen.add(id(f))
            d, kd = f.__defaults__, f.__kwdefaults__
            if (d and any(_mutable(x) for x in d)) or (kd and any(_mutable(x) for x in kd.values())):
                out.append((f, copy.deepcopy(d), copy.deepcopy(kd)))
    return out


_PRISTINE_GLOBALS = None
_PRISTINE_NMODS = 0
# memo of synthesized *types* (concrete keys and values): kept across paths, like the classes of the modules themselves
_KEPT_CACHES = ("TPMS_PARAMS.encrypted",)


def _scan_globals():
    """module-level and class-level containers and lru_caches of the analysed package, with a shallow copy each"""
    import collections
    import copy
    import functools
    import inspect

    kinds = (dict, list, set, bytearray, collections.defaultdict, collections.OrderedDict, collections.deque)
    conts, caches, seen = [], [], set()
    for name, mod in list(sys.modules.items()):
        if not name.startswith("tpmstream") or mod is None:
            continue
        objs = list(vars(mod).values())
        for o in list(objs):
            if inspect.isclass(o) and getattr(o, "__module__", "").startswith("tpmstream"):
                objs.extend(vars(o).values())
        for o in objs:
            o = getattr(o, "__func__", o)
            if id(o) in seen:
                continue
            seen.add(id(o))
            if type(o) in kinds:
                conts.append((o, copy.copy(o)))
            elif isinstance(o, functools._lru_cache_wrapper):
                qn = getattr(getattr(o, "__wrapped__", None), "__qualname__", "")
                if qn not in _KEPT_CACHES:
                    caches.append((o, o.cache_info().currsize))
    return conts, caches


def _unchanged(o, snap):
    if len(o) != len(snap):
        return False
    if isinstance(snap, dict):
        return all((k in o) and (o[k] is v) for k, v in snap.items())
    if isinstance(snap, (set,)):
        return all(x in o for x in snap)
    return all(a is b for a, b in zip(o, snap))


def restore_module_state():
    """Every path starts from the state the package had when it was imported: containers at module / class level
    that a path changed are put back, memo caches a path filled are emptied (their keys may hold values of a
    dead state space).  Does nothing on code that keeps no such state."""
    global _PRISTINE_GLOBALS, _PRISTINE_NMODS
    n = sum(1 for m in sys.modules if m.startswith("tpmstream"))
    if _PRISTINE_GLOBALS is None or n != _PRISTINE_NMODS:
        known = {id(o) for o, _ in (_PRISTINE_GLOBALS[0] if _PRISTINE_GLOBALS else [])} | {
            id(o) for o, _ in (_PRISTINE_GLOBALS[1] if _PRISTINE_GLOBALS else [])}
        conts, caches = _scan_globals()
        if _PRISTINE_GLOBALS is None:
            _PRISTINE_GLOBALS = (conts, caches)
        else:
            _PRISTINE_GLOBALS[0].extend(c for c in conts if id(c[0]) not in known)
            _PRISTINE_GLOBALS[1].extend(c for c in caches if id(c[0]) not in known)
        _PRISTINE_NMODS = n
    for o, snap in _PRISTINE_GLOBALS[0]:
        try:
            same = _unchanged(o, snap)
        except Exception:
            same = False
        if not same:
            chsetup.HIT.add("ISO")
            if isinstance(o, (list, bytearray)):
                o[:] = snap
            elif hasattr(o, "update"):
                o.clear()
                o.update(snap)
            else:
                o.clear()
                o.extend(snap)
    for c, size in _PRISTINE_GLOBALS[1]:
        if c.cache_info().currsize != size:
            chsetup.HIT.add("ISO")
            c.cache_clear()


def restore_mutable_defaults():
    global _PRISTINE_DEFAULTS
    import copy

    if _PRISTINE_DEFAULTS is None:
        _PRISTINE_DEFAULTS = _scan_defaults()
    for f, d, kd in _PRISTINE_DEFAULTS:
        if d is not None:
            f.__defaults__ = copy.deepcopy(d)
        if kd is not None:
            f.__kwdefaults__ = copy.deepcopy(kd)
    restore_module_state()


class _HardTimeout(BaseException):
    pass


def _on_alarm(signum, frame):
    raise _HardTimeout()


def explore(part):
    """part: dict(id, prop, cfg, sym, budget_s, path_timeout_s[, max_fail]) -> result dict"""
    prop = resolve(part["prop"])
    cfg = part.get("cfg", {})
    symspec = part["sym"]
    budget = float(part.get("budget_s", 60))
    ppt = float(part.get("path_timeout_s", 20))
    max_fail = int(part.get("max_fail", 4))
    for k in STATS:
        STATS[k] = 0
    chsetup.HIT.clear()
    res = {
        "id": part["id"],
        "prop": part["prop"],
        "paths": 0,
        "confirmed": 0,
        "ignored": 0,
        "unknown": 0,
        "unknown_reasons": {},
        "failures": [],
        "notes": {},
        "samples": [],
        "verdict": "incomplete",
        "reason": "",
    }
    root = RootNode()
    wall0 = time.time()
    t0 = process_time()
    exhausted = False
    fail_tags = {}
    signal.signal(signal.SIGALRM, _on_alarm)
    signal.alarm(int(budget * 2 + 4 * ppt + 30))
    try:
        while True:
            start = process_time()
            if start - t0 > budget:
                res["reason"] = "budget %.0fs reached" % budget
                break
            res["paths"] += 1
            restore_mutable_defaults()
            space = StateSpace(
                execution_deadline=start + ppt,
                model_check_timeout=ppt / 2,
                search_root=root,
            )
            status = None
            with condition_parser(
                DEFAULT_OPTIONS.analysis_kind
            ), Patched(), COMPOSITE_TRACER, NoTracing(), StateSpaceContext(space):
                try:
                    args = make_args(symspec, space)
                    with ResumedTracing():
                        tag = _run_path(prop, cfg, args)
                        want_sample = tag is None and len(res["samples"]) < 2
                        concrete = None
                        if tag is not None or want_sample:
                            space.detach_path()
                            concrete = deep_realize(args)
                    path_notes = list(NOTES)
                    if tag is not None:
                        n = fail_tags.get(tag, 0)
                        fail_tags[tag] = n + 1
                        if n < 2:
                            res["failures"].append(
                                {"tag": tag, "args": _jsonable(concrete), "notes": path_notes}
                            )
                    elif want_sample:
                        res["samples"].append({"args": _jsonable(concrete), "notes": path_notes})
                    for k in set(path_notes):
                        res["notes"][k] = res["notes"].get(k, 0) + 1
                    res["confirmed"] += 1
                    status = VerificationStatus.CONFIRMED
                except IgnoreAttempt:
                    res["ignored"] += 1
                    status = None
                except UnexploredPath as e:
                    res["unknown"] += 1
                    k = type(e).__name__
                    res["unknown_reasons"][k] = res["unknown_reasons"].get(k, 0) + 1
                    status = VerificationStatus.UNKNOWN
                except NotDeterministic:
                    res["unknown"] += 1
                    res["unknown_reasons"]["NotDeterministic"] = (
                        res["unknown_reasons"].get("NotDeterministic", 0) + 1
                    )
                    status = VerificationStatus.UNKNOWN
                except (CrossHairInternal, z3.Z3Exception) as e:
                    # e.g. a symbolic value of an earlier path leaked through program state
                    res["unknown"] += 1
                    k = "engine:" + type(e).__name__
                    res["unknown_reasons"][k] = res["unknown_reasons"].get(k, 0) + 1
                    status = VerificationStatus.UNKNOWN
                top, exhausted = space.bubble_status(CallAnalysis(status))
            if exhausted:
                break
            if len(fail_tags) >= max_fail:
                res["reason"] = "stopped after %d distinct failure tags" % len(fail_tags)
                break
    except _HardTimeout:
        res["reason"] = "hard timeout"
        exhausted = False
    finally:
        signal.alarm(0)
    res["fail_tags"] = fail_tags
    if exhausted and res["unknown"] == 0:
        res["verdict"] = "exhausted"
    elif exhausted:
        res["reason"] = "unknown paths: %s" % res["unknown_reasons"]
    res["wall_s"] = round(time.time() - wall0, 2)
    res["cpu_s"] = round(process_time() - t0, 2)
    res["queries"] = STATS["queries"]
    res["solver_s"] = round(STATS["solver_s"], 3)
    res["realizations"] = STATS["realizations"]
    res["adaptations_hit"] = sorted(chsetup.HIT)
    return res


